//! Evidence files, violations, replay artefacts and known findings.

use std::{
    collections::{BTreeMap, BTreeSet},
    path::PathBuf,
    time::Instant,
};

use serde_json::{json, Map, Value};

use crate::{pipe::Input, util};

#[derive(Clone, Debug)]
pub struct Violation {
    /// short class of what failed, e.g. `offset_mismatch`, `accepted_unrealisable`, `E0588`
    pub key: String,
    /// generator-computed features of the failing case
    pub features: Vec<String>,
    pub input: Input,
    pub ps: usize,
    /// human readable expectation vs. observation
    pub detail: String,
    /// how to find the case again: space name + index (+ anything else)
    pub locator: Value,
}

#[derive(Clone, Debug)]
pub struct KnownFinding {
    pub property: String,
    pub id: String,
    pub what: String,
    pub key: String,
    pub features_all: Vec<String>,
    pub features_none: Vec<String>,
    pub detail_contains: Vec<String>,
}

pub fn load_known_findings(property: &str) -> Vec<KnownFinding> {
    let p = util::verif_root().join("known_findings.json");
    let Ok(text) = std::fs::read_to_string(&p) else {
        return vec![];
    };
    let v: Value = serde_json::from_str(&text).expect("known_findings.json is not valid JSON");
    let mut out = vec![];
    for e in v["findings"].as_array().cloned().unwrap_or_default() {
        if e["property"].as_str() != Some(property) {
            continue;
        }
        let strs = |v: &Value| -> Vec<String> {
            v.as_array()
                .map(|a| a.iter().filter_map(|s| s.as_str().map(String::from)).collect())
                .unwrap_or_default()
        };
        out.push(KnownFinding {
            property: property.to_string(),
            id: e["id"].as_str().unwrap_or_default().to_string(),
            what: e["what"].as_str().unwrap_or_default().to_string(),
            key: e["match"]["key"].as_str().unwrap_or_default().to_string(),
            features_all: strs(&e["match"]["features_all"]),
            features_none: strs(&e["match"]["features_none"]),
            detail_contains: strs(&e["match"]["detail_contains"]),
        });
    }
    out
}

impl KnownFinding {
    pub fn matches(&self, v: &Violation) -> bool {
        self.key == v.key
            && self.features_all.iter().all(|f| v.features.contains(f))
            && !self.features_none.iter().any(|f| v.features.contains(f))
            && self.detail_contains.iter().all(|d| v.detail.contains(d.as_str()))
    }
}

pub struct Report {
    pub id: String,
    pub tier: String,
    pub seed: i64,
    start: Instant,
    pub states: u64,
    pub transitions: u64,
    pub traces: u64,
    pub evaluations: u64,
    pub distinct: BTreeSet<u64>,
    pub rule: String,
    pub samples: Vec<Value>,
    pub extra: Map<String, Value>,
    pub counters: BTreeMap<String, u64>,
    pub assumptions: Vec<String>,
    pub exhaustive: bool,
    pub caps: Vec<String>,
    pub violations: Vec<Violation>,
    pub machinery_errors: Vec<String>,
}

impl Report {
    pub fn new(id: &str, tier: &str) -> Report {
        if let Ok(mut c) = crate::pipe::CURRENT_CHECK.lock() {
            *c = id.to_string();
        }
        let seed = std::env::var("VERIF_SEED")
            .ok()
            .and_then(|s| s.parse().ok())
            .unwrap_or(0);
        Report {
            id: id.to_string(),
            tier: tier.to_string(),
            seed,
            start: Instant::now(),
            states: 0,
            transitions: 0,
            traces: 0,
            evaluations: 0,
            distinct: BTreeSet::new(),
            rule: String::new(),
            samples: vec![],
            extra: Map::new(),
            counters: BTreeMap::new(),
            assumptions: vec![],
            exhaustive: true,
            caps: vec![],
            violations: vec![],
            machinery_errors: vec![],
        }
    }
    pub fn count(&mut self, name: &str, n: u64) {
        *self.counters.entry(name.to_string()).or_insert(0) += n;
    }
    pub fn distinct_str(&mut self, s: &str) {
        self.distinct.insert(util::fnv(s));
    }
    pub fn sample(&mut self, v: Value) {
        if self.samples.len() < 8 {
            self.samples.push(v);
        }
    }
    pub fn violation(&mut self, v: Violation) {
        self.violations.push(v);
    }
    pub fn machinery(&mut self, msg: impl Into<String>) {
        self.machinery_errors.push(msg.into());
    }
    pub fn elapsed(&self) -> f64 {
        self.start.elapsed().as_secs_f64()
    }

    /// Writes evidence, prints KNOWN-FINDING / VIOLATION lines and returns the exit code.
    pub fn finish(mut self) -> i32 {
        let known = load_known_findings(&self.id);
        let mut absorbed: BTreeMap<String, u64> = BTreeMap::new();
        let mut fresh: Vec<Violation> = vec![];
        for v in std::mem::take(&mut self.violations) {
            if let Some(k) = known.iter().find(|k| k.matches(&v)) {
                *absorbed.entry(k.id.clone()).or_insert(0) += 1;
            } else {
                fresh.push(v);
            }
        }
        for k in &known {
            if let Some(n) = absorbed.get(&k.id) {
                println!(
                    "KNOWN-FINDING: property={} {} [{}; {} enumerated cases]",
                    self.id, k.what, k.id, n
                );
            }
        }
        // group fresh violations by key, write one replay per (key, first few cases)
        let mut by_key: BTreeMap<String, Vec<&Violation>> = BTreeMap::new();
        for v in &fresh {
            by_key.entry(v.key.clone()).or_default().push(v);
        }
        // replay artefacts of earlier runs of this property are stale
        let _ = std::fs::remove_dir_all(util::out_root().join("replays").join(&self.id));
        let mut replay_paths = vec![];
        for (key, vs) in &by_key {
            for v in vs.iter().take(3) {
                let h = util::fnv(&format!("{}{}{}", v.input.render(), v.ps, v.detail));
                let dir = util::out_root()
                    .join("replays")
                    .join(&self.id)
                    .join(format!("{}-{:016x}", sanitize(key), h));
                let _ = std::fs::create_dir_all(dir.join("input"));
                for (m, t) in &v.input.modules {
                    let p = dir.join("input").join(format!("{}.pyxis", m.replace("::", "/")));
                    if let Some(parent) = p.parent() {
                        let _ = std::fs::create_dir_all(parent);
                    }
                    let _ = std::fs::write(p, t);
                }
                let meta = json!({
                    "property": self.id,
                    "tier": self.tier,
                    "key": v.key,
                    "features": v.features,
                    "pointer_size": v.ps,
                    "detail": v.detail,
                    "locator": v.locator,
                    "modules": v.input.modules.iter().map(|(m, t)| json!({"path": m, "text": t})).collect::<Vec<_>>(),
                    "same_class_cases_in_this_run": vs.len(),
                });
                let _ = std::fs::write(
                    dir.join("meta.json"),
                    serde_json::to_string_pretty(&meta).unwrap(),
                );
                replay_paths.push((key.clone(), dir, v.detail.clone()));
            }
        }
        for (key, dir, detail) in &replay_paths {
            println!("VIOLATION property={} replay={}", self.id, dir.display());
            println!("  class={key} {}", first_line(detail));
        }

        let wall = self.elapsed();
        let mut coverage = Map::new();
        coverage.insert("states".into(), json!(self.states.max(1)));
        coverage.insert("transitions".into(), json!(self.transitions.max(1)));
        coverage.insert("traces_validated_against_impl".into(), json!(self.traces));
        coverage.insert("evaluations".into(), json!(self.evaluations.max(1)));
        coverage.insert("distinct_nontrivial".into(), json!(self.distinct.len()));
        coverage.insert("rule".into(), json!(self.rule));
        if self.samples.is_empty() {
            self.samples.push(json!("<no samples recorded>"));
        }
        coverage.insert("samples".into(), Value::Array(self.samples.clone()));
        coverage.insert("exhaustive".into(), json!(self.exhaustive && self.caps.is_empty()));
        coverage.insert("caps_hit".into(), json!(self.caps));
        coverage.insert(
            "counters".into(),
            Value::Object(self.counters.iter().map(|(k, v)| (k.clone(), json!(v))).collect()),
        );
        coverage.insert(
            "known_findings_absorbed".into(),
            Value::Object(absorbed.iter().map(|(k, v)| (k.clone(), json!(v))).collect()),
        );
        coverage.insert(
            "violation_classes".into(),
            Value::Object(by_key.iter().map(|(k, v)| (k.clone(), json!(v.len()))).collect()),
        );
        for (k, v) in &self.extra {
            coverage.insert(k.clone(), v.clone());
        }
        if !self.machinery_errors.is_empty() {
            coverage.insert("machinery_errors".into(), json!(self.machinery_errors));
        }
        let ev = json!({
            "property_id": self.id,
            "tier": self.tier,
            "seed": self.seed,
            "level": "model_checking",
            "coverage": Value::Object(coverage),
            "assumptions": self.assumptions,
            "wall_s": wall,
            "violations": fresh.len(),
        });
        let dir = util::out_root().join("evidence");
        let _ = std::fs::create_dir_all(&dir);
        let path = dir.join(format!("{}.json", self.id));
        let tmp = dir.join(format!("{}.json.tmp", self.id));
        std::fs::write(&tmp, serde_json::to_string_pretty(&ev).unwrap()).expect("write evidence");
        std::fs::rename(&tmp, &path).expect("rename evidence");

        eprintln!(
            "[{} {}] states={} transitions={} traces={} distinct={} known_absorbed={} violations={} wall={:.1}s",
            self.id,
            self.tier,
            self.states,
            self.transitions,
            self.traces,
            self.distinct.len(),
            absorbed.values().sum::<u64>(),
            fresh.len(),
            wall
        );
        for (k, v) in &self.counters {
            eprintln!("    {k} = {v}");
        }
        for m in &self.machinery_errors {
            eprintln!("MACHINERY-ERROR: {m}");
        }
        // a confirmed violation is a verdict even if some other part of the run had trouble
        if !fresh.is_empty() {
            1
        } else if !self.machinery_errors.is_empty() {
            2
        } else {
            0
        }
    }
}

fn first_line(s: &str) -> String {
    let l = s.lines().next().unwrap_or("");
    l.chars().take(300).collect()
}

fn sanitize(s: &str) -> String {
    s.chars()
        .map(|c| if c.is_ascii_alphanumeric() || c == '_' || c == '-' { c } else { '_' })
        .take(48)
        .collect()
}

pub fn replay_meta(path: &str) -> anyhow::Result<Value> {
    let p = PathBuf::from(path);
    let meta = if p.is_dir() { p.join("meta.json") } else { p };
    Ok(serde_json::from_str(&std::fs::read_to_string(meta)?)?)
}

pub fn input_from_meta(meta: &Value) -> Input {
    Input {
        modules: meta["modules"]
            .as_array()
            .map(|a| {
                a.iter()
                    .map(|m| {
                        (
                            m["path"].as_str().unwrap_or("m").to_string(),
                            m["text"].as_str().unwrap_or("").to_string(),
                        )
                    })
                    .collect()
            })
            .unwrap_or_default(),
    }
}
