//! Oracle X: execution of emitted wrappers on the 64-bit host against recording stubs.

use std::{collections::BTreeMap, process::Command};

use crate::{rustc_oracle::*, util};

const RT_SRC: &str = include_str!("rt/stubrt.rs");

#[derive(Clone, Debug, Default, PartialEq)]
pub struct Event {
    pub stub: u64,
    pub args: [u64; 8],
}

#[derive(Clone, Debug, Default, PartialEq)]
pub struct Record {
    pub label: String,
    pub ret: u64,
    pub extra: Vec<u64>,
    pub events: Vec<Event>,
}

#[derive(Clone, Debug, Default)]
pub struct XResult {
    /// diagnostics if the case (with its driver) does not type-check on the host
    pub compile: Vec<Diag>,
    pub records: Vec<Record>,
    /// the runner crashed / was killed while executing this case (reproduced alone)
    pub crashed: Option<String>,
    pub completed: bool,
}

fn hex(s: &str) -> u64 {
    u64::from_str_radix(s.trim_start_matches("0x"), 16).unwrap_or(0)
}

fn parse_output(out: &str, results: &mut BTreeMap<usize, XResult>) -> Option<usize> {
    let mut current = None;
    for line in out.lines() {
        if let Some(rest) = line.strip_prefix("@@CASE ") {
            current = rest.trim().parse::<usize>().ok();
        } else if let Some(rest) = line.strip_prefix("@@DONE ") {
            if let Ok(id) = rest.trim().parse::<usize>() {
                results.entry(id).or_default().completed = true;
            }
            current = None;
        } else if let Some(rest) = line.strip_prefix("@@REC ") {
            let parts: Vec<&str> = rest.split('|').collect();
            if parts.len() < 5 {
                continue;
            }
            let id: usize = parts[0].parse().unwrap_or(usize::MAX);
            let mut rec = Record { label: parts[1].to_string(), ret: hex(parts[3]), ..Default::default() };
            rec.extra = parts[4].split(',').filter(|s| !s.is_empty()).map(hex).collect();
            for ev in &parts[5..] {
                if let Some((stub, args)) = ev.split_once(':') {
                    let mut e = Event { stub: hex(stub), args: [0; 8] };
                    for (i, a) in args.split(',').take(8).enumerate() {
                        e.args[i] = hex(a);
                    }
                    rec.events.push(e);
                }
            }
            let _n: usize = parts[2].parse().unwrap_or(0);
            results.entry(id).or_default().records.push(rec);
        }
    }
    current
}

/// Type-checks, builds and runs the cases. `entry` is the path (below the case root) of the
/// `unsafe fn()` to call for each case, e.g. `m::__verif_exec::run`.
pub fn run_cases(cases: &[RCase], entry: &str, batch_size: usize) -> anyhow::Result<Vec<XResult>> {
    let n = cases.len();
    // the runtime is a shared root module of every batch (type-check pass and runner alike)
    let cases: Vec<RCase> = cases
        .iter()
        .map(|c| {
            let mut c = c.clone();
            c.shared.insert("rt.rs".to_string(), RT_SRC.to_string());
            c
        })
        .collect();
    let cases = &cases[..];
    let (diags, _) = check_cases(cases, Target::Host64, batch_size)?;
    let mut results: Vec<XResult> = diags.into_iter().map(|d| XResult { compile: d, ..Default::default() }).collect();
    let runnable: Vec<usize> = (0..n).filter(|i| results[*i].compile.is_empty()).collect();
    let nb = runnable.len().div_ceil(batch_size.max(1));
    let root = util::scratch_root().join("runner");
    let outs = util::par_map(nb, |b, _| -> anyhow::Result<BTreeMap<usize, XResult>> {
        let ids: Vec<usize> = runnable[b * batch_size..((b + 1) * batch_size).min(runnable.len())].to_vec();
        let dir = root.join(format!("b{b}"));
        let _ = std::fs::remove_dir_all(&dir);
        std::fs::create_dir_all(&dir)?;
        let live: Vec<(usize, &RCase)> = ids.iter().map(|i| (*i, &cases[*i])).collect();
        let mut main = String::from("#![allow(warnings)]\n");
        main.push_str(&write_case_tree(&dir, Target::Host64, &live)?);
        main.push_str("fn main() {\n    let args: Vec<String> = std::env::args().collect();\n    let only: Option<usize> = args.get(1).and_then(|s| s.parse().ok());\n    let from: usize = args.get(2).and_then(|s| s.parse().ok()).unwrap_or(0);\n");
        for id in &ids {
            main.push_str(&format!(
                "    if only.map_or({id} >= from, |o| o == {id}) {{ unsafe {{ rt::case_begin({id}); c{id:07}::{entry}(); rt::case_end(); }} }}\n"
            ));
        }
        main.push_str("}\n");
        std::fs::write(dir.join("main.rs"), main)?;
        let out = Command::new("rustc")
            .args(["--edition=2021", "--crate-type", "bin", "--crate-name", "runner", "-C", "opt-level=0", "-C", "debuginfo=0", "-C", "codegen-units=4", "-A", "warnings", "-o", "runner", "main.rs"])
            .current_dir(&dir)
            .output()?;
        anyhow::ensure!(out.status.success(), "runner build failed although every case type-checked:\n{}", String::from_utf8_lossy(&out.stderr).chars().take(4000).collect::<String>());
        let mut results: BTreeMap<usize, XResult> = BTreeMap::new();
        let mut from = 0usize;
        let mut guard = 0;
        loop {
            guard += 1;
            anyhow::ensure!(guard < 200, "runner keeps crashing");
            let out = Command::new(dir.join("runner")).arg("all").arg(from.to_string()).current_dir(&dir).output()?;
            let text = String::from_utf8_lossy(&out.stdout).to_string();
            anyhow::ensure!(!text.contains("@@RT-ERROR"), "runner runtime error: {}", text.lines().find(|l| l.contains("@@RT-ERROR")).unwrap_or(""));
            let unfinished = parse_output(&text, &mut results);
            if out.status.success() && unfinished.is_none() {
                break;
            }
            let Some(id) = unfinished else {
                anyhow::bail!("runner failed outside any case: {:?}", out.status);
            };
            // reproduce alone
            let alone = Command::new(dir.join("runner")).arg(id.to_string()).current_dir(&dir).output()?;
            let r = results.entry(id).or_default();
            if alone.status.success() {
                // not reproducible alone: keep the solitary records, flag as machinery issue
                anyhow::bail!("case {id} crashed in a batch run ({:?}) but not alone", out.status);
            }
            r.crashed = Some(format!("{:?}", alone.status));
            r.completed = false;
            from = id + 1;
        }
        let _ = std::fs::remove_dir_all(&dir);
        Ok(results)
    });
    for o in outs {
        for (id, r) in o? {
            let compile = std::mem::take(&mut results[id].compile);
            results[id] = r;
            results[id].compile = compile;
        }
    }
    Ok(results)
}
