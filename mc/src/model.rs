//! Reference model. Written from the property statements, never by calling pyxis.

use std::collections::BTreeMap;

use crate::spec::*;

/// (size, alignment) of the built-in scalars on the target family pyxis describes
/// (`*-pc-windows-msvc` / x86-64 SysV agree on all of these). Validated against rustc on
/// both targets by `rustc_oracle::validate_builtin_table`.
pub const BUILTINS: &[(&str, u64, u64)] = &[
    ("bool", 1, 1),
    ("u8", 1, 1),
    ("u16", 2, 2),
    ("u32", 4, 4),
    ("u64", 8, 8),
    ("u128", 16, 16),
    ("i8", 1, 1),
    ("i16", 2, 2),
    ("i32", 4, 4),
    ("i64", 8, 8),
    ("i128", 16, 16),
    ("f32", 4, 4),
    ("f64", 8, 8),
];

pub const INT_BASES: &[&str] = &["u8", "u16", "u32", "u64", "u128", "i8", "i16", "i32", "i64", "i128"];

pub fn int_range(base: &str) -> Option<(i128, i128)> {
    // i128/u128 ranges are clipped to what an i128 can represent; the description language
    // cannot write anything beyond an isize anyway.
    Some(match base {
        "u8" => (0, u8::MAX as i128),
        "u16" => (0, u16::MAX as i128),
        "u32" => (0, u32::MAX as i128),
        "u64" => (0, u64::MAX as i128),
        "u128" => (0, i128::MAX),
        "i8" => (i8::MIN as i128, i8::MAX as i128),
        "i16" => (i16::MIN as i128, i16::MAX as i128),
        "i32" => (i32::MIN as i128, i32::MAX as i128),
        "i64" => (i64::MIN as i128, i64::MAX as i128),
        "i128" => (i128::MIN, i128::MAX),
        _ => return None,
    })
}

/// Sizes of user-visible auxiliary types: name -> [(size, align) at ps=4, (size, align) at ps=8]
#[derive(Clone, Debug, Default)]
pub struct Env {
    pub users: BTreeMap<String, [(u64, u64); 2]>,
}

impl Env {
    pub fn with(mut self, name: &str, at4: (u64, u64), at8: (u64, u64)) -> Env {
        self.users.insert(name.to_string(), [at4, at8]);
        self
    }
    pub fn get(&self, name: &str, ps: u64) -> Option<(u64, u64)> {
        self.users.get(name).map(|v| v[if ps == 4 { 0 } else { 1 }])
    }
}

pub fn size_align(t: &MTy, ps: u64, env: &Env) -> Option<(u64, u64)> {
    match t {
        MTy::B("void") => None,
        MTy::B(n) => BUILTINS.iter().find(|(b, _, _)| b == n).map(|(_, s, a)| (*s, *a)),
        MTy::Ptr(..) => Some((ps, ps)),
        MTy::Arr(t, n) => size_align(t, ps, env).map(|(s, a)| (s * n, a)),
        MTy::Unk(n) => Some((*n, 1)),
        MTy::User(n) => env.get(n, ps),
    }
}

#[derive(Clone, Debug, PartialEq, Eq)]
pub enum Reject {
    NegativeAttr,
    PackedAndAlign,
    Overlap,
    MisalignedField,
    SizeMismatch,
    SizeNotMultipleOfAlign,
    AlignTooSmall,
    AlignNotPow2,
    UnknownType,
}

impl Reject {
    pub fn name(&self) -> &'static str {
        match self {
            Reject::NegativeAttr => "negative_attr",
            Reject::PackedAndAlign => "packed_and_align",
            Reject::Overlap => "overlap",
            Reject::MisalignedField => "misaligned_field",
            Reject::SizeMismatch => "size_mismatch",
            Reject::SizeNotMultipleOfAlign => "size_not_multiple_of_align",
            Reject::AlignTooSmall => "align_too_small",
            Reject::AlignNotPow2 => "align_not_pow2",
            Reject::UnknownType => "unknown_type",
        }
    }
}

#[derive(Clone, Debug, PartialEq, Eq)]
pub struct Layout {
    /// offset of each declared field, in declaration order
    pub offsets: Vec<u64>,
    /// sizes of each declared field
    pub sizes: Vec<u64>,
    pub size: u64,
    pub align: u64,
    /// number of storage regions (vftable pointer, gaps > 0, non-empty fields, trailing pad)
    pub regions: usize,
    /// whether the type carries its own vftable pointer at offset 0
    pub own_vfptr: bool,
    /// end of the vftable pointer region (0 when there is none)
    pub vfptr_end: u64,
    /// all rejection reasons that apply (empty = realisable)
    pub rejects: Vec<Reject>,
}

/// Lays a type out as the statement of C03 prescribes. `own_vfptr`: the type declares a
/// vftable block and no first base supplies the pointer.
pub fn layout(t: &TypeS, ps: u64, env: &Env, own_vfptr: bool) -> Layout {
    let mut rejects = vec![];
    let mut offsets = vec![];
    let mut sizes = vec![];
    let mut end: u64 = 0;
    let mut regions = 0usize;
    let mut field_aligns: Vec<(u64, u64)> = vec![]; // (offset, align) of every storage region
    if own_vfptr {
        field_aligns.push((0, ps));
        end = ps;
        regions += 1;
    }
    let mut sole_align = if own_vfptr { Some(ps) } else { None };
    for f in &t.fields {
        let Some((sz, al)) = size_align(&f.ty, ps, env) else {
            rejects.push(Reject::UnknownType);
            offsets.push(end);
            sizes.push(0);
            continue;
        };
        let off = match f.addr {
            Some(a) if a < 0 => {
                rejects.push(Reject::NegativeAttr);
                end
            }
            Some(a) => {
                let a = a as u64;
                if a < end {
                    rejects.push(Reject::Overlap);
                    end
                } else {
                    if a > end {
                        regions += 1; // gap
                        sole_align = Some(1);
                    }
                    a
                }
            }
            None => end,
        };
        offsets.push(off);
        sizes.push(sz);
        // an unnamed zero-length array is padding of size 0 and vanishes; a named one is a field
        let is_array = matches!(f.ty, MTy::Arr(..) | MTy::Unk(_));
        if !(sz == 0 && is_array && f.name.is_none()) {
            regions += 1;
            sole_align = Some(al);
            field_aligns.push((off, al));
        }
        end = off + sz;
    }
    let mut size = end;
    match t.size {
        Some(s) if s < 0 => rejects.push(Reject::NegativeAttr),
        Some(s) => {
            let s = s as u64;
            if s < end {
                rejects.push(Reject::SizeMismatch);
            } else if s > end {
                regions += 1;
                sole_align = Some(1);
                size = s;
            }
        }
        None => {}
    }
    let align;
    if t.packed {
        align = 1;
        if t.align.is_some() {
            rejects.push(Reject::PackedAndAlign);
        }
    } else {
        let eff = match t.align {
            Some(a) if a < 0 => {
                rejects.push(Reject::NegativeAttr);
                ps
            }
            Some(a) => a as u64,
            None => {
                if regions == 1 {
                    sole_align.unwrap_or(ps)
                } else {
                    ps
                }
            }
        };
        align = eff;
        if eff == 0 || !eff.is_power_of_two() {
            rejects.push(Reject::AlignNotPow2);
        }
        if field_aligns.iter().any(|(_, a)| *a > eff) {
            rejects.push(Reject::AlignTooSmall);
        }
        if field_aligns.iter().any(|(o, a)| o % a != 0) {
            rejects.push(Reject::MisalignedField);
        }
        if eff != 0 && size % eff != 0 {
            rejects.push(Reject::SizeNotMultipleOfAlign);
        }
    }
    Layout {
        offsets,
        sizes,
        size,
        align,
        regions,
        own_vfptr,
        vfptr_end: if own_vfptr { ps } else { 0 },
        rejects,
    }
}

/// Enum discriminants per C08: written value, else predecessor + 1, first 0.
pub fn enum_values(e: &EnumS) -> Vec<i128> {
    let mut out = vec![];
    let mut next: i128 = 0;
    for v in &e.variants {
        let val = v.value.unwrap_or(next);
        out.push(val);
        next = val.saturating_add(1);
    }
    out
}
