//! A printer from pyxis's abstract `grammar::Module` to concrete syntax, written independently
//! of the parser, parameterised by a *style* (whitespace, comments, trailing commas, doc
//! spelling, attribute grouping, integer spelling, backend block form, item interleaving).

use pyxis::grammar::*;

use crate::spec::{num, NumStyle};

#[derive(Clone, Copy, Debug, PartialEq, Eq)]
pub struct Style {
    /// 0 " ", 1 "\n", 2 " /* c */ ", 3 " // c\n", 4 "\t \n  "
    pub sep: usize,
    pub trailing_commas: bool,
    /// docs as `/// text` (true) or `#[doc = "text"]`
    pub doc_sugar: bool,
    /// `#[a, b]` (true) or `#[a] #[b]`
    pub merge_attrs: bool,
    pub ints: NumStyle,
    /// backend blocks in braces when possible even for a single section
    pub backend_braces: bool,
    /// items grouped by kind (false) or interleaved round-robin (true)
    pub interleave: bool,
}

pub const N_STYLES: usize = 5 * 2 * 2 * 2 * 3 * 2 * 2;

pub fn style(i: usize) -> Style {
    let d = crate::util::decode(i % N_STYLES, &[5, 2, 2, 2, 3, 2, 2]);
    Style {
        sep: d[0],
        trailing_commas: d[1] == 1,
        doc_sugar: d[2] == 1,
        merge_attrs: d[3] == 1,
        ints: [NumStyle::Dec, NumStyle::Hex, NumStyle::Under][d[4]],
        backend_braces: d[5] == 1,
        interleave: d[6] == 1,
    }
}

/// A small set of styles in which every value of every dimension occurs.
pub fn covering_styles() -> Vec<Style> {
    // rows chosen so that each dimension takes each of its values at least once and the
    // separators each meet both values of every binary dimension
    let rows: [[usize; 7]; 10] = [
        [0, 0, 0, 0, 0, 0, 0],
        [0, 1, 1, 1, 1, 1, 1],
        [1, 0, 1, 0, 2, 1, 0],
        [1, 1, 0, 1, 0, 0, 1],
        [2, 0, 1, 1, 1, 0, 0],
        [2, 1, 0, 0, 2, 1, 1],
        [3, 0, 0, 1, 2, 0, 1],
        [3, 1, 1, 0, 0, 1, 0],
        [4, 0, 1, 1, 0, 1, 1],
        [4, 1, 0, 0, 1, 0, 0],
    ];
    rows.iter()
        .map(|d| Style {
            sep: d[0],
            trailing_commas: d[1] == 1,
            doc_sugar: d[2] == 1,
            merge_attrs: d[3] == 1,
            ints: [NumStyle::Dec, NumStyle::Hex, NumStyle::Under][d[4]],
            backend_braces: d[5] == 1,
            interleave: d[6] == 1,
        })
        .collect()
}

struct P {
    toks: Vec<String>,
    st: Style,
}

fn str_lit(s: &str) -> String {
    // a normal string literal with escapes
    let mut o = String::from("\"");
    for c in s.chars() {
        match c {
            '"' => o.push_str("\\\""),
            '\\' => o.push_str("\\\\"),
            '\n' => o.push_str("\\n"),
            '\t' => o.push_str("\\t"),
            c => o.push(c),
        }
    }
    o.push('"');
    o
}

impl P {
    fn t(&mut self, s: &str) {
        self.toks.push(s.to_string());
    }
    fn int(&mut self, v: i128) {
        self.toks.push(num(v, self.st.ints));
    }
    fn expr(&mut self, e: &Expr) {
        match e {
            Expr::IntLiteral(v) => self.int(*v as i128),
            Expr::StringLiteral(s) => self.t(&str_lit(s)),
            Expr::Ident(i) => self.t(i.as_str()),
        }
    }
    fn attr_part(&mut self, a: &Attribute) {
        match a {
            Attribute::Ident(i) => self.t(i.as_str()),
            Attribute::Function(i, args) => {
                self.t(i.as_str());
                self.t("(");
                for (k, e) in args.iter().enumerate() {
                    if k > 0 {
                        self.t(",");
                    }
                    self.expr(e);
                }
                if self.st.trailing_commas && !args.is_empty() {
                    self.t(",");
                }
                self.t(")");
            }
            Attribute::Assign(i, e) => {
                self.t(i.as_str());
                self.t("=");
                self.expr(e);
            }
        }
    }
    fn is_sugar_doc(&self, a: &Attribute) -> Option<String> {
        if !self.st.doc_sugar {
            return None;
        }
        if let Attribute::Assign(i, Expr::StringLiteral(s)) = a {
            // `///text` is only equivalent when the text has no newline and does not start with
            // '/' (that would be `////`, an ordinary comment)
            if i.as_str() == "doc" && !s.contains('\n') && !s.contains('\r') && !s.starts_with('/') {
                return Some(s.clone());
            }
        }
        None
    }
    fn attrs(&mut self, attrs: &Attributes, inner: bool) {
        let mut i = 0;
        let list = &attrs.0;
        while i < list.len() {
            if let Some(text) = self.is_sugar_doc(&list[i]) {
                self.toks.push(format!("{}{text}\n", if inner { "//!" } else { "///" }));
                i += 1;
                continue;
            }
            self.t("#");
            if inner {
                self.t("!");
            }
            self.t("[");
            self.attr_part(&list[i]);
            i += 1;
            if self.st.merge_attrs {
                while i < list.len() && self.is_sugar_doc(&list[i]).is_none() {
                    self.t(",");
                    self.attr_part(&list[i]);
                    i += 1;
                }
                if self.st.trailing_commas {
                    self.t(",");
                }
            }
            self.t("]");
        }
    }
    fn type_ident(&mut self, s: &str) {
        // split `Foo<Bar>` back into the tokens the parser concatenates
        let mut cur = String::new();
        for c in s.chars() {
            if c == '<' || c == '>' {
                if !cur.is_empty() {
                    self.toks.push(std::mem::take(&mut cur));
                }
                self.toks.push(c.to_string());
            } else {
                cur.push(c);
            }
        }
        if !cur.is_empty() {
            self.toks.push(cur);
        }
    }
    fn ty(&mut self, t: &Type) {
        match t {
            Type::ConstPointer(t) => {
                self.t("*");
                self.t("const");
                self.ty(t);
            }
            Type::MutPointer(t) => {
                self.t("*");
                self.t("mut");
                self.ty(t);
            }
            Type::Array(t, n) => {
                self.t("[");
                self.ty(t);
                self.t(";");
                self.int(*n as i128);
                self.t("]");
            }
            Type::Ident(i) => self.type_ident(i.as_str()),
            Type::Unknown(n) => {
                self.t("unknown");
                self.t("<");
                self.int(*n as i128);
                self.t(">");
            }
        }
    }
    fn vis(&mut self, v: Visibility) {
        if v == Visibility::Public {
            self.t("pub");
        }
    }
    fn func(&mut self, f: &Function) {
        self.attrs(&f.attributes, false);
        self.vis(f.visibility);
        self.t("fn");
        self.t(f.name.as_str());
        self.t("(");
        for (k, a) in f.arguments.iter().enumerate() {
            if k > 0 {
                self.t(",");
            }
            match a {
                Argument::ConstSelf => {
                    self.t("&");
                    self.t("self");
                }
                Argument::MutSelf => {
                    self.t("&");
                    self.t("mut");
                    self.t("self");
                }
                Argument::Named(n, t) => {
                    self.t(n.as_str());
                    self.t(":");
                    self.ty(t);
                }
            }
        }
        if self.st.trailing_commas && !f.arguments.is_empty() {
            self.t(",");
        }
        self.t(")");
        if let Some(r) = &f.return_type {
            self.t("->");
            self.ty(r);
        }
    }
    fn funcs(&mut self, fs: &[Function]) {
        for (k, f) in fs.iter().enumerate() {
            if k > 0 {
                self.t(";");
            }
            self.func(f);
        }
        if !fs.is_empty() && (self.st.trailing_commas || fs.len() == 1) {
            // a trailing `;` is optional; always present for a single function in one style family
            self.t(";");
        }
    }
    fn definition(&mut self, d: &ItemDefinition) {
        match &d.inner {
            ItemDefinitionInner::Type(td) => {
                self.attrs(&td.attributes, false);
                self.vis(d.visibility);
                self.t("type");
                self.t(d.name.as_str());
                if td.statements.is_empty() && !self.st.trailing_commas {
                    self.t(";");
                } else {
                    self.t("{");
                    for (k, s) in td.statements.iter().enumerate() {
                        if k > 0 {
                            self.t(",");
                        }
                        self.attrs(&s.attributes, false);
                        match &s.field {
                            TypeField::Field(v, n, t) => {
                                self.vis(*v);
                                self.t(n.as_str());
                                self.t(":");
                                self.ty(t);
                            }
                            TypeField::Vftable(fs) => {
                                self.t("vftable");
                                self.t("{");
                                self.funcs(fs);
                                self.t("}");
                            }
                        }
                    }
                    if self.st.trailing_commas && !td.statements.is_empty() {
                        self.t(",");
                    }
                    self.t("}");
                }
            }
            ItemDefinitionInner::Enum(ed) => {
                self.attrs(&ed.attributes, false);
                self.vis(d.visibility);
                self.t("enum");
                self.t(d.name.as_str());
                self.t(":");
                self.ty(&ed.type_);
                self.t("{");
                for (k, s) in ed.statements.iter().enumerate() {
                    if k > 0 {
                        self.t(",");
                    }
                    self.attrs(&s.attributes, false);
                    self.t(s.name.as_str());
                    if let Some(e) = &s.expr {
                        self.t("=");
                        self.expr(e);
                    }
                }
                if self.st.trailing_commas && !ed.statements.is_empty() {
                    self.t(",");
                }
                self.t("}");
            }
        }
    }
    fn raw_block(&mut self, kw: &str, text: &str) {
        self.t(kw);
        // the parser trims the text: padding is legal and must not change the value
        let hashes = "#".repeat(1 + text.matches("\"#").count());
        let pad = if self.st.sep == 0 { "" } else { "\n    " };
        self.toks.push(format!("r{hashes}\"{pad}{text}{pad}\"{hashes}"));
        self.t(";");
    }
    fn backend(&mut self, b: &Backend) {
        self.t("backend");
        self.t(b.name.as_str());
        let single = b.prologue.is_some() != b.epilogue.is_some();
        if single && !self.st.backend_braces {
            if let Some(p) = &b.prologue {
                self.raw_block("prologue", p);
            }
            if let Some(e) = &b.epilogue {
                self.raw_block("epilogue", e);
            }
        } else {
            self.t("{");
            if let Some(p) = &b.prologue {
                self.raw_block("prologue", p);
            }
            if let Some(e) = &b.epilogue {
                self.raw_block("epilogue", e);
            }
            self.t("}");
        }
    }
    fn module(&mut self, m: &Module) {
        self.attrs(&m.attributes, true);
        // item groups; within a kind the order is significant, across kinds it is not
        let mut groups: Vec<Vec<Vec<String>>> = vec![];
        macro_rules! group {
            ($iter:expr, $f:expr) => {{
                let mut g = vec![];
                for x in $iter {
                    let save = std::mem::take(&mut self.toks);
                    $f(self, x);
                    g.push(std::mem::replace(&mut self.toks, save));
                }
                groups.push(g);
            }};
        }
        group!(m.uses.iter(), |p: &mut P, u: &ItemPath| {
            p.t("use");
            for (k, seg) in u.iter().enumerate() {
                if k > 0 {
                    p.t("::");
                }
                p.type_ident(seg.as_str());
            }
            p.t(";");
        });
        group!(m.extern_types.iter(), |p: &mut P, (n, a): &(Ident, Attributes)| {
            p.attrs(a, false);
            p.t("extern");
            p.t("type");
            p.type_ident(n.as_str());
            p.t(";");
        });
        group!(m.extern_values.iter(), |p: &mut P, ev: &ExternValue| {
            p.attrs(&ev.attributes, false);
            p.vis(ev.visibility);
            p.t("extern");
            p.t(ev.name.as_str());
            p.t(":");
            p.ty(&ev.type_);
            p.t(";");
        });
        group!(m.definitions.iter(), |p: &mut P, d: &ItemDefinition| p.definition(d));
        group!(m.impls.iter(), |p: &mut P, fb: &FunctionBlock| {
            p.attrs(&fb.attributes, false);
            p.t("impl");
            p.t(fb.name.as_str());
            p.t("{");
            p.funcs(&fb.functions);
            p.t("}");
        });
        group!(m.backends.iter(), |p: &mut P, b: &Backend| p.backend(b));
        if self.st.interleave {
            let max = groups.iter().map(|g| g.len()).max().unwrap_or(0);
            for i in 0..max {
                for g in groups.iter().rev() {
                    if let Some(item) = g.get(i) {
                        self.toks.extend(item.iter().cloned());
                    }
                }
            }
        } else {
            for g in &groups {
                for item in g {
                    self.toks.extend(item.iter().cloned());
                }
            }
        }
    }
}

pub fn tokens(m: &Module, st: Style) -> Vec<String> {
    let mut p = P { toks: vec![], st };
    p.module(m);
    p.toks
}

pub fn join(toks: &[String], sep: usize) -> String {
    let seps = [" ", "\n", " /* c */ ", " // c\n", "\t \n  "];
    let mut out = String::new();
    for (i, t) in toks.iter().enumerate() {
        if i > 0 && !out.ends_with('\n') {
            out.push_str(seps[sep]);
        } else if i > 0 {
            // previous token was a doc comment line; keep other separators off its line
            if sep >= 2 {
                out.push_str(seps[sep].trim_start());
            }
        }
        out.push_str(t);
    }
    out
}

pub fn print(m: &Module, st: Style) -> String {
    join(&tokens(m, st), st.sep)
}
