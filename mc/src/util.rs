//! Small shared helpers: deterministic parallel map, scratch directories, hashing.

use std::{
    path::{Path, PathBuf},
    sync::atomic::{AtomicUsize, Ordering},
};

pub fn n_threads() -> usize {
    std::env::var("VERIF_THREADS")
        .ok()
        .and_then(|s| s.parse().ok())
        .unwrap_or_else(|| {
            std::thread::available_parallelism()
                .map(|n| n.get())
                .unwrap_or(4)
                .min(16)
        })
}

/// Applies `f` to every index in `0..n` on a pool of worker threads and returns the
/// results in index order. The work distribution (chunk stealing) does not influence the
/// result: every index is evaluated exactly once and results are re-assembled by index.
pub fn par_map<T: Send, F: Fn(usize, usize) -> T + Sync>(n: usize, f: F) -> Vec<T> {
    let threads = n_threads().min(n.max(1));
    let next = AtomicUsize::new(0);
    let chunk = (n / (threads * 8)).clamp(1, 4096);
    let mut parts: Vec<Vec<(usize, T)>> = std::thread::scope(|s| {
        let hs: Vec<_> = (0..threads)
            .map(|tid| {
                let next = &next;
                let f = &f;
                s.spawn(move || {
                    let mut out = vec![];
                    loop {
                        let start = next.fetch_add(chunk, Ordering::Relaxed);
                        if start >= n {
                            break;
                        }
                        for i in start..(start + chunk).min(n) {
                            out.push((i, f(i, tid)));
                        }
                    }
                    out
                })
            })
            .collect();
        hs.into_iter().map(|h| h.join().expect("worker panicked")).collect()
    });
    let mut all: Vec<(usize, T)> = Vec::with_capacity(n);
    for p in parts.drain(..) {
        all.extend(p);
    }
    all.sort_by_key(|(i, _)| *i);
    all.into_iter().map(|(_, t)| t).collect()
}

/// Root of all scratch data of this process. Lives on tmpfs when available (pure scratch,
/// re-created on every run), else under /verif/work.
pub fn scratch_root() -> PathBuf {
    let base = if Path::new("/dev/shm").is_dir() {
        PathBuf::from("/dev/shm/pyxis-mc")
    } else {
        verif_root().join("work/scratch")
    };
    let p = base.join(format!("p{}", std::process::id()));
    std::fs::create_dir_all(&p).expect("create scratch");
    p
}

/// Removes scratch directories left behind by processes that no longer exist (a killed check).
pub fn cleanup_stale_scratch() {
    let base = scratch_root();
    let Some(parent) = base.parent() else { return };
    let Ok(rd) = std::fs::read_dir(parent) else { return };
    for e in rd.flatten() {
        let name = e.file_name().to_string_lossy().to_string();
        if let Some(pid) = name.strip_prefix('p').and_then(|p| p.parse::<u32>().ok()) {
            if pid != std::process::id() && !Path::new(&format!("/proc/{pid}")).exists() {
                let _ = std::fs::remove_dir_all(e.path());
            }
        }
    }
}

pub fn cleanup_scratch() {
    let _ = std::fs::remove_dir_all(scratch_root());
}

pub fn verif_root() -> PathBuf {
    std::env::var("VERIF_ROOT")
        .map(PathBuf::from)
        .unwrap_or_else(|_| PathBuf::from("/verif"))
}

/// Where evidence and replay artefacts go: /verif, or $VERIF_OUT (used when a seeded change
/// is being tried, so that committed evidence is not overwritten).
pub fn out_root() -> PathBuf {
    std::env::var("VERIF_OUT").map(PathBuf::from).unwrap_or_else(|_| verif_root())
}

pub fn work_dir() -> PathBuf {
    let p = verif_root().join("work");
    std::fs::create_dir_all(&p).expect("create work dir");
    p
}

pub fn fnv(s: &str) -> u64 {
    let mut h: u64 = 0xcbf29ce484222325;
    for b in s.bytes() {
        h ^= b as u64;
        h = h.wrapping_mul(0x100000001b3);
    }
    h
}

/// All permutations of 0..n in lexicographic order.
pub fn permutations(n: usize) -> Vec<Vec<usize>> {
    fn rec(cur: &mut Vec<usize>, used: &mut Vec<bool>, n: usize, out: &mut Vec<Vec<usize>>) {
        if cur.len() == n {
            out.push(cur.clone());
            return;
        }
        for i in 0..n {
            if !used[i] {
                used[i] = true;
                cur.push(i);
                rec(cur, used, n, out);
                cur.pop();
                used[i] = false;
            }
        }
    }
    let mut out = vec![];
    rec(&mut vec![], &mut vec![false; n], n, &mut out);
    out
}

/// Cartesian product helper: decodes `idx` into mixed-radix digits for `radices`.
pub fn decode(mut idx: usize, radices: &[usize]) -> Vec<usize> {
    let mut out = Vec::with_capacity(radices.len());
    for r in radices {
        out.push(idx % r);
        idx /= r;
    }
    out
}

pub fn product(radices: &[usize]) -> usize {
    radices.iter().product()
}
