//! Fixed runtime of the execution oracle (X): recording stubs at absolute addresses, fake
//! vftables, data pages at absolute addresses. Compiled into every generated runner binary.
#![allow(warnings)]

use core::ffi::c_void;
use std::io::Write;

extern "C" {
    fn mmap(addr: *mut c_void, len: usize, prot: i32, flags: i32, fd: i32, off: i64) -> *mut c_void;
}

const PROT_RWX: i32 = 7;
const PROT_RW: i32 = 3;
const MAP_PRIVATE: i32 = 0x02;
const MAP_ANONYMOUS: i32 = 0x20;
const MAP_FIXED_NOREPLACE: i32 = 0x100000;

#[derive(Clone, Copy)]
pub struct Event {
    pub stub: u64,
    pub args: [u64; 8],
}

pub static mut LAST_STUB: u64 = 0;
pub static mut NEXT_RET: u64 = 0;
static mut EVENTS: Vec<Event> = Vec::new();
static mut LABEL: String = String::new();
static mut CASE: usize = 0;
static mut PAGES: Vec<(u64, i32)> = Vec::new();
static mut ARENA: u64 = 0;
static mut ARENA_END: u64 = 0;

/// Every stub jumps here with its id in r10; the argument registers and the stack are
/// untouched, so `record` sees exactly what the wrapper passed and returns to the wrapper.
#[unsafe(naked)]
pub unsafe extern "C" fn trampoline() {
    core::arch::naked_asm!(
        "mov qword ptr [rip + {last}], r10",
        "jmp {rec}",
        last = sym LAST_STUB,
        rec = sym record,
    )
}

pub unsafe extern "C" fn record(a0: u64, a1: u64, a2: u64, a3: u64, a4: u64, a5: u64, a6: u64, a7: u64) -> u64 {
    let ev = Event { stub: LAST_STUB, args: [a0, a1, a2, a3, a4, a5, a6, a7] };
    (*core::ptr::addr_of_mut!(EVENTS)).push(ev);
    NEXT_RET
}

unsafe fn ensure_page(page: u64, prot: i32) {
    let pages = &mut *core::ptr::addr_of_mut!(PAGES);
    if let Some((_, p)) = pages.iter().find(|(a, _)| *a == page) {
        if *p != prot {
            // a page used both for code and data: make it RWX
            extern "C" {
                fn mprotect(addr: *mut c_void, len: usize, prot: i32) -> i32;
            }
            mprotect(page as *mut c_void, 4096, PROT_RWX);
        }
        return;
    }
    let r = mmap(page as *mut c_void, 4096, prot, MAP_PRIVATE | MAP_ANONYMOUS | MAP_FIXED_NOREPLACE, -1, 0);
    if r as u64 != page {
        println!("@@RT-ERROR cannot map page {page:#x} (got {:#x})", r as u64);
        std::io::stdout().flush().ok();
        std::process::exit(70);
    }
    pages.push((page, prot));
}

unsafe fn write_stub(at: u64, id: u64) {
    let mut code = [0u8; 23];
    code[0] = 0x49;
    code[1] = 0xBA; // mov r10, imm64
    code[2..10].copy_from_slice(&id.to_le_bytes());
    code[10] = 0x49;
    code[11] = 0xBB; // mov r11, imm64
    code[12..20].copy_from_slice(&(trampoline as usize as u64).to_le_bytes());
    code[20] = 0x41;
    code[21] = 0xFF;
    code[22] = 0xE3; // jmp r11
    core::ptr::copy_nonoverlapping(code.as_ptr(), at as *mut u8, 23);
}

/// A recording stub at the absolute address `addr`, with id = addr.
pub unsafe fn map_stub_at(addr: u64) {
    ensure_page(addr & !0xfff, PROT_RWX);
    if (addr + 23) & !0xfff != addr & !0xfff {
        ensure_page((addr + 23) & !0xfff, PROT_RWX);
    }
    write_stub(addr, addr);
}

/// A recording stub somewhere, with the given id; returns its address (for fake vftables).
pub unsafe fn stub(id: u64) -> u64 {
    if ARENA + 32 > ARENA_END {
        let r = mmap(core::ptr::null_mut(), 1 << 20, PROT_RWX, MAP_PRIVATE | MAP_ANONYMOUS, -1, 0);
        ARENA = r as u64;
        ARENA_END = ARENA + (1 << 20);
    }
    let at = ARENA;
    ARENA += 32;
    write_stub(at, id);
    at
}

/// Zeroed read-write memory at the absolute address `addr`.
pub unsafe fn map_data(addr: u64, len: u64) -> *mut u8 {
    let mut page = addr & !0xfff;
    while page < addr + len.max(1) {
        ensure_page(page, PROT_RW);
        page += 4096;
    }
    core::ptr::write_bytes(addr as *mut u8, 0, len as usize);
    addr as *mut u8
}

pub unsafe fn set_ret(v: u64) {
    NEXT_RET = v;
}

pub unsafe fn case_begin(case: usize) {
    CASE = case;
    println!("@@CASE {case}");
    std::io::stdout().flush().ok();
}

pub unsafe fn begin(label: &str) {
    (*core::ptr::addr_of_mut!(EVENTS)).clear();
    *core::ptr::addr_of_mut!(LABEL) = label.to_string();
    LAST_STUB = 0;
}

/// Prints one record: the calls observed since `begin`, the wrapper's result and extra values.
pub unsafe fn end(ret: u64, extra: &[u64]) {
    let events = &*core::ptr::addr_of!(EVENTS);
    let mut s = format!("@@REC {}|{}|{}|{:#x}|", CASE, &*core::ptr::addr_of!(LABEL), events.len(), ret);
    s.push_str(&extra.iter().map(|x| format!("{x:#x}")).collect::<Vec<_>>().join(","));
    for e in events {
        s.push_str(&format!("|{:#x}:{}", e.stub, e.args.iter().map(|x| format!("{x:#x}")).collect::<Vec<_>>().join(",")));
    }
    println!("{s}");
    std::io::stdout().flush().ok();
}

pub unsafe fn case_end() {
    println!("@@DONE {}", CASE);
    std::io::stdout().flush().ok();
}
