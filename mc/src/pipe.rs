//! Drives the real pyxis pipeline in-process: parse -> add_module -> build -> write_module,
//! under catch_unwind, and extracts the observation the oracles work on.

use std::{
    cell::RefCell,
    collections::BTreeMap,
    panic::{catch_unwind, AssertUnwindSafe},
    path::PathBuf,
};

use pyxis::{
    grammar::ItemPath,
    semantic::{
        types::{ItemCategory, ItemDefinitionInner, ItemState, Type},
        ResolvedSemanticState, SemanticState,
    },
};

use crate::util;

#[derive(Clone, Debug, PartialEq, Eq, Hash, PartialOrd, Ord)]
pub struct Input {
    /// (module path such as `a` or `n::c`, text)
    pub modules: Vec<(String, String)>,
}

impl Input {
    pub fn single(text: impl Into<String>) -> Input {
        Input {
            modules: vec![("m".to_string(), text.into())],
        }
    }
    pub fn render(&self) -> String {
        let mut s = String::new();
        for (p, t) in &self.modules {
            s.push_str(&format!("// ---- module {p} ----\n{t}\n"));
        }
        s
    }
}

#[derive(Clone, Debug, PartialEq, Eq)]
pub struct RegionInfo {
    pub name: Option<String>,
    pub public: bool,
    pub ty: String,
    pub is_base: bool,
    pub doc: Option<String>,
}

#[derive(Clone, Debug, PartialEq, Eq)]
pub struct ItemInfo {
    pub path: String,
    pub public: bool,
    pub category: &'static str,
    pub is_enum: bool,
    pub size: usize,
    pub alignment: usize,
    pub regions: Vec<RegionInfo>,
    pub enum_fields: Vec<(String, isize)>,
    pub packed: bool,
    pub has_vftable: bool,
    pub vftable_base_field: Option<String>,
    pub vftable_functions: Vec<String>,
    pub associated_functions: Vec<String>,
}

#[derive(Clone, Debug, PartialEq, Eq)]
pub struct Built {
    /// relative file path (e.g. `m.rs`, `n/c.rs`) -> content
    pub files: BTreeMap<String, String>,
    pub items: BTreeMap<String, ItemInfo>,
}

#[derive(Clone, Debug, PartialEq, Eq)]
pub enum Verdict {
    Ok(Built),
    /// parse error: module, message, line, column (0-based as reported by proc_macro2)
    ParseErr(String, String, usize, usize),
    /// semantic or backend error (full chain)
    Err(String),
    Panic(String),
}

impl Verdict {
    pub fn is_ok(&self) -> bool {
        matches!(self, Verdict::Ok(_))
    }
    pub fn class(&self) -> &'static str {
        match self {
            Verdict::Ok(_) => "ok",
            Verdict::ParseErr(..) => "parse_err",
            Verdict::Err(_) => "err",
            Verdict::Panic(_) => "panic",
        }
    }
    pub fn err_text(&self) -> String {
        match self {
            Verdict::Ok(_) => String::new(),
            Verdict::ParseErr(m, e, l, c) => format!("parse error in {m} at {l}:{c}: {e}"),
            Verdict::Err(e) => e.clone(),
            Verdict::Panic(e) => format!("PANIC: {e}"),
        }
    }
    pub fn built(&self) -> Option<&Built> {
        match self {
            Verdict::Ok(b) => Some(b),
            _ => None,
        }
    }
}

/// Progress accounting for the hang watchdog (see `start_watchdog`).
pub static RUNS_DONE: std::sync::atomic::AtomicU64 = std::sync::atomic::AtomicU64::new(0);
pub static RUNS_IN_FLIGHT: std::sync::atomic::AtomicI64 = std::sync::atomic::AtomicI64::new(0);

/// The input each thread is currently running (for the watchdog's report).
static IN_FLIGHT_INPUTS: std::sync::Mutex<Vec<(std::thread::ThreadId, Input, usize)>> = std::sync::Mutex::new(Vec::new());
/// The property the process is checking (set by `Report::new`).
pub static CURRENT_CHECK: std::sync::Mutex<String> = std::sync::Mutex::new(String::new());

struct InFlight;
impl InFlight {
    fn new(input: &Input, ps: usize) -> InFlight {
        RUNS_IN_FLIGHT.fetch_add(1, std::sync::atomic::Ordering::Relaxed);
        if let Ok(mut v) = IN_FLIGHT_INPUTS.lock() {
            v.push((std::thread::current().id(), input.clone(), ps));
        }
        InFlight
    }
}
impl Drop for InFlight {
    fn drop(&mut self) {
        if let Ok(mut v) = IN_FLIGHT_INPUTS.lock() {
            let me = std::thread::current().id();
            v.retain(|(t, _, _)| *t != me);
        }
        RUNS_IN_FLIGHT.fetch_sub(1, std::sync::atomic::Ordering::Relaxed);
        RUNS_DONE.fetch_add(1, std::sync::atomic::Ordering::Relaxed);
    }
}

/// A pipeline run normally takes microseconds. If runs are in flight and none has finished for
/// `secs` seconds, pyxis is looping or allocating without bound on some input: the check cannot
/// deliver a verdict (C12 finds and names such inputs in isolated worker processes), so it stops
/// with a machinery error instead of hanging forever.
pub fn start_watchdog(secs: u64) {
    std::thread::spawn(move || {
        use std::sync::atomic::Ordering::Relaxed;
        let mut last = u64::MAX;
        let mut stuck = 0;
        loop {
            std::thread::sleep(std::time::Duration::from_secs(5));
            let done = RUNS_DONE.load(Relaxed);
            if RUNS_IN_FLIGHT.load(Relaxed) > 0 && done == last {
                stuck += 5;
                if stuck >= secs {
                    let check = CURRENT_CHECK.lock().map(|c| c.clone()).unwrap_or_default();
                    let stuck_inputs: Vec<(Input, usize)> = IN_FLIGHT_INPUTS.lock().map(|v| v.iter().map(|(_, i, p)| (i.clone(), *p)).collect()).unwrap_or_default();
                    // Termination is part of C10's and C12's statements ("always ends the build
                    // with an error", "never ... an endless loop"): there a build that does not
                    // return is a violation, with the input in flight as the counterexample.
                    if (check == "C10" || check == "C12") && !stuck_inputs.is_empty() {
                        let (input, ps) = &stuck_inputs[0];
                        let mut rep = crate::report::Report::new(&check, &std::env::var("VERIF_TIER").unwrap_or_else(|_| "quick".into()));
                        rep.rule = "aborted by the hang watchdog: see the violation".into();
                        rep.states = done;
                        rep.transitions = done;
                        rep.traces = done;
                        rep.evaluations = done;
                        rep.distinct.insert(1);
                        rep.distinct.insert(2);
                        rep.sample(serde_json::json!({"input": input.render(), "outcome": "did not return"}));
                        rep.violation(crate::report::Violation { key: "build_does_not_return".into(), features: vec![], input: input.clone(), ps: *ps, detail: format!("SemanticState::build has not returned for {secs} s on this input ({} pipeline runs completed before)", done), locator: serde_json::json!({"space": "watchdog"}) });
                        let code = rep.finish();
                        crate::util::cleanup_scratch();
                        std::process::exit(code);
                    }
                    eprintln!("MACHINERY-ERROR: a pyxis pipeline run has not returned for {secs} s (endless loop or unbounded allocation in pyxis; `./check C12 quick` isolates such inputs). In flight:");
                    for (i, p) in stuck_inputs.iter().take(2) {
                        eprintln!("--- pointer size {p} ---\n{}", i.render());
                    }
                    crate::util::cleanup_scratch();
                    std::process::exit(2);
                }
            } else {
                stuck = 0;
                last = done;
            }
        }
    });
}

thread_local! {
    static LAST_PANIC: RefCell<Option<String>> = const { RefCell::new(None) };
    static OUT_DIR: RefCell<Option<PathBuf>> = const { RefCell::new(None) };
}

pub fn install_panic_hook() {
    std::panic::set_hook(Box::new(|info| {
        let msg = if let Some(s) = info.payload().downcast_ref::<&str>() {
            s.to_string()
        } else if let Some(s) = info.payload().downcast_ref::<String>() {
            s.clone()
        } else {
            "<non-string panic>".to_string()
        };
        let loc = info
            .location()
            .map(|l| format!("{}:{}", l.file(), l.line()))
            .unwrap_or_default();
        LAST_PANIC.with(|p| *p.borrow_mut() = Some(format!("{msg} @ {loc}")));
        // panics of the subject (absolute paths of the path dependency) are verdicts and stay quiet;
        // a panic in the engine's own code (paths relative to this crate) is a machinery failure
        if std::env::var("VERIF_SHOW_PANICS").is_ok() || loc.starts_with("src/") {
            eprintln!("MACHINERY: panic in the engine: {msg} @ {loc}");
        }
    }));
}

fn take_panic() -> String {
    LAST_PANIC
        .with(|p| p.borrow_mut().take())
        .unwrap_or_else(|| "<unknown panic>".to_string())
}

fn thread_out_dir() -> PathBuf {
    OUT_DIR.with(|d| {
        let mut d = d.borrow_mut();
        if d.is_none() {
            let p = util::scratch_root().join(format!("out-{:?}", std::thread::current().id()).replace(['(', ')'], ""));
            std::fs::create_dir_all(&p).expect("create out dir");
            *d = Some(p);
        }
        d.clone().unwrap()
    })
}

pub fn type_to_string(t: &Type) -> String {
    format!("{t}")
}

pub fn extract_items(state: &ResolvedSemanticState) -> BTreeMap<String, ItemInfo> {
    let mut items = BTreeMap::new();
    for module in state.modules().values() {
        for p in module.definition_paths() {
            let Some(def) = state.type_registry().get(p) else {
                continue;
            };
            let ItemState::Resolved(res) = &def.state else {
                continue;
            };
            let category = match def.category {
                ItemCategory::Defined => "defined",
                ItemCategory::Predefined => "predefined",
                ItemCategory::Extern => "extern",
            };
            let mut info = ItemInfo {
                path: p.to_string(),
                public: matches!(def.visibility, pyxis::semantic::types::Visibility::Public),
                category,
                is_enum: false,
                size: res.size,
                alignment: res.alignment,
                regions: vec![],
                enum_fields: vec![],
                packed: false,
                has_vftable: false,
                vftable_base_field: None,
                vftable_functions: vec![],
                associated_functions: vec![],
            };
            match &res.inner {
                ItemDefinitionInner::Type(td) => {
                    info.packed = td.packed;
                    for r in &td.regions {
                        info.regions.push(RegionInfo {
                            name: r.name.clone(),
                            public: matches!(r.visibility, pyxis::semantic::types::Visibility::Public),
                            ty: type_to_string(&r.type_ref),
                            is_base: r.is_base,
                            doc: r.doc.clone(),
                        });
                    }
                    if let Some(v) = &td.vftable {
                        info.has_vftable = true;
                        info.vftable_base_field = v.base_field.clone();
                        info.vftable_functions = v.functions.iter().map(|f| f.to_string()).collect();
                    }
                    info.associated_functions =
                        td.associated_functions.iter().map(|f| f.to_string()).collect();
                }
                ItemDefinitionInner::Enum(ed) => {
                    info.is_enum = true;
                    info.enum_fields = ed.fields.clone();
                }
            }
            items.insert(p.to_string(), info);
        }
    }
    items
}

/// Parses every module; returns Err(verdict) on the first parse failure or panic.
pub fn parse_all(input: &Input) -> Result<Vec<(ItemPath, pyxis::grammar::Module)>, Verdict> {
    // proc_macro2 (span-locations) keeps every parsed source in a thread-local source map;
    // no Span outlives a pipeline run in this harness, so drop them to keep memory flat.
    proc_macro2::extra::invalidate_current_thread_spans();
    let mut out = vec![];
    for (path, text) in &input.modules {
        let r = catch_unwind(AssertUnwindSafe(|| pyxis::parser::parse_str(text)));
        match r {
            Err(_) => return Err(Verdict::Panic(take_panic())),
            Ok(Err(e)) => {
                let lc = e.span().start();
                return Err(Verdict::ParseErr(path.clone(), e.to_string(), lc.line, lc.column));
            }
            Ok(Ok(m)) => out.push((ItemPath::from(path.as_str()), m)),
        }
    }
    Ok(out)
}

/// Writes all modules of a resolved state through the real backend and reads them back.
pub fn emit(state: &ResolvedSemanticState) -> anyhow::Result<BTreeMap<String, String>> {
    let out_dir = thread_out_dir();
    let _ = std::fs::remove_dir_all(&out_dir);
    std::fs::create_dir_all(&out_dir)?;
    // Sorted so that the first error reported does not depend on HashMap order.
    let mut keys: Vec<&ItemPath> = state.modules().keys().collect();
    keys.sort();
    for key in keys {
        let module = &state.modules()[key];
        pyxis::backends::rust::write_module(&out_dir, key, state, module)?;
    }
    let mut files = BTreeMap::new();
    collect_files(&out_dir, &out_dir, &mut files)?;
    Ok(files)
}

pub fn collect_files(
    root: &std::path::Path,
    dir: &std::path::Path,
    files: &mut BTreeMap<String, String>,
) -> anyhow::Result<()> {
    for e in std::fs::read_dir(dir)? {
        let e = e?;
        let p = e.path();
        if p.is_dir() {
            collect_files(root, &p, files)?;
        } else {
            let rel = p.strip_prefix(root)?.to_string_lossy().to_string();
            files.insert(rel, std::fs::read_to_string(&p)?);
        }
    }
    Ok(())
}

/// Runs the whole pipeline on `input` at pointer width `ps`, modules added in the given order.
pub fn run(input: &Input, ps: usize) -> Verdict {
    run_with(input, ps, true)
}

pub fn run_with(input: &Input, ps: usize, do_emit: bool) -> Verdict {
    let _guard = InFlight::new(input, ps);
    let parsed = match parse_all(input) {
        Ok(p) => p,
        Err(v) => return v,
    };
    let r = catch_unwind(AssertUnwindSafe(|| -> anyhow::Result<Built> {
        let mut st = SemanticState::new(ps);
        for (path, m) in &parsed {
            st.add_module(m, path)?;
        }
        let resolved = st.build()?;
        let items = extract_items(&resolved);
        let files = if do_emit { emit(&resolved)? } else { BTreeMap::new() };
        Ok(Built { files, items })
    }));
    match r {
        Err(_) => Verdict::Panic(take_panic()),
        Ok(Err(e)) => Verdict::Err(format!("{e:#}")),
        Ok(Ok(b)) => Verdict::Ok(b),
    }
}

/// Like `run`, but with a resolution scheduler installed for the duration of the build.
pub fn run_scheduled(
    input: &Input,
    ps: usize,
    add_order: &[usize],
    scheduler: pyxis::verif::Scheduler,
) -> Verdict {
    let _guard = InFlight::new(input, ps);
    let parsed = match parse_all(input) {
        Ok(p) => p,
        Err(v) => return v,
    };
    let r = catch_unwind(AssertUnwindSafe(|| -> anyhow::Result<Built> {
        let mut st = SemanticState::new(ps);
        for &i in add_order {
            let (path, m) = &parsed[i];
            st.add_module(m, path)?;
        }
        pyxis::verif::set_scheduler(Some(scheduler));
        let resolved = st.build();
        pyxis::verif::set_scheduler(None);
        let resolved = resolved?;
        let items = extract_items(&resolved);
        let files = emit(&resolved)?;
        Ok(Built { files, items })
    }));
    pyxis::verif::set_scheduler(None);
    match r {
        Err(_) => Verdict::Panic(take_panic()),
        Ok(Err(e)) => Verdict::Err(format!("{e:#}")),
        Ok(Ok(b)) => Verdict::Ok(b),
    }
}
