#![allow(dead_code, unused_mut)]
mod checks;
mod exec_oracle;
mod gprint;
mod model;
mod pipe;
mod report;
mod rustc_oracle;
mod sched;
mod spaces;
mod spec;
mod synx;
mod util;

fn main() {
    // anyhow captures a backtrace per error when backtraces are enabled; the explorers create
    // millions of (expected) errors, and capture takes a process-wide lock.
    std::env::set_var("RUST_LIB_BACKTRACE", "0");
    std::env::set_var("RUST_BACKTRACE", "0");
    let args: Vec<String> = std::env::args().skip(1).collect();
    if args.len() < 2 {
        eprintln!("usage: pyxis-mc <property> quick|thorough | pyxis-mc <property> --replay <path>");
        std::process::exit(2);
    }
    pipe::install_panic_hook();
    if !args[0].to_uppercase().contains("WORKER") {
        util::cleanup_stale_scratch();
        // long enough for the slowest legitimate run (a 65 536-slot vftable takes about a second)
        pipe::start_watchdog(60);
    }
    let id = args[0].to_uppercase();
    let (tier, only) = if args[1] == "--replay" {
        let meta = match report::replay_meta(&args[2]) {
            Ok(m) => m,
            Err(e) => {
                eprintln!("cannot read replay: {e}");
                std::process::exit(2);
            }
        };
        (
            meta["tier"].as_str().unwrap_or("quick").to_string(),
            Some(meta["locator"].clone()),
        )
    } else {
        (args[1].clone(), None)
    };
    std::env::set_var("VERIF_TIER", &tier);
    let code = match id.as_str() {
        "C01" | "C02" => checks::layout_rustc::run(&id, &tier, only.as_ref()),
        "SETUP" => match rustc_oracle::ensure_sysroot(rustc_oracle::Target::I686Msvc).and_then(|_| rustc_oracle::ensure_sysroot(rustc_oracle::Target::X64Msvc)) {
            Ok(_) => 0,
            Err(e) => {
                eprintln!("MACHINERY-ERROR: {e:#}");
                2
            }
        },
        "C09" => checks::c09::run(&tier, only.as_ref()),
        "C10" => checks::c10::run(&tier, only.as_ref()),
        "C11" => checks::c11::run(&tier, only.as_ref()),
        "C14" => checks::c14::run(&tier, only.as_ref()),
        "C16" => checks::c16::run(&tier, only.as_ref()),
        "C17" => checks::c17::run(&tier, only.as_ref()),
        "C18" => checks::c18::run(&tier, only.as_ref()),
        "C19" => checks::c19::run(&tier, only.as_ref()),
        "C20" => checks::c20::run(&tier, only.as_ref()),
        "C12" => checks::c12::run(&tier, only.as_ref()),
        "C12-WORKER" => checks::c12::worker_main(&args[2..]),
        "C05" => checks::c05::run(&tier, only.as_ref()),
        "C04" => checks::c04::run(&tier, only.as_ref()),
        "C15" => checks::c15::run(&tier, only.as_ref()),
        "C06" => checks::c06::run(&tier, only.as_ref()),
        "C07" => checks::c07::run(&tier, only.as_ref()),
        "C13" => checks::c13::run(&tier, only.as_ref()),
        "SIZES" => {
            for tier in ["quick", "thorough"] {
                for (aux, red) in [(false, false), (true, true)] {
                    let sp = if red { spaces::LayoutSpace::new_reduced(tier, aux) } else { spaces::LayoutSpace::new(tier, aux) };
                    println!("layout space tier={tier} aux={aux} reduced={red}: {} cases per width\n   {}", sp.len(), sp.describe().replace("; ", "\n   "));
                }
            }
            0
        }
        "C08" => checks::c08::run(&tier, only.as_ref()),
        "C03" => checks::c03::run(&tier, only.as_ref()),
        _ => {
            eprintln!("unknown property {id}");
            2
        }
    };
    util::cleanup_scratch();
    std::process::exit(code);
}
