//! Oracle S: structural inspection of emitted Rust with syn.

use quote::ToTokens;

#[derive(Clone, Debug, Default, PartialEq, Eq)]
pub struct FieldInfo {
    pub name: String,
    pub public: bool,
    pub ty: String,
    pub docs: Vec<String>,
}

#[derive(Clone, Debug, Default, PartialEq, Eq)]
pub struct StructInfo {
    pub name: String,
    pub public: bool,
    pub derives: Vec<String>,
    pub repr: Vec<String>,
    pub docs: Vec<String>,
    pub fields: Vec<FieldInfo>,
}

#[derive(Clone, Debug, Default, PartialEq, Eq)]
pub struct VariantInfo {
    pub name: String,
    pub docs: Vec<String>,
    pub is_default: bool,
    pub discr: Option<String>,
}

#[derive(Clone, Debug, Default, PartialEq, Eq)]
pub struct EnumInfo {
    pub name: String,
    pub public: bool,
    pub derives: Vec<String>,
    pub repr: Vec<String>,
    pub docs: Vec<String>,
    pub variants: Vec<VariantInfo>,
    pub default_variants: Vec<String>,
}

#[derive(Clone, Debug, Default, PartialEq, Eq)]
pub struct FnInfo {
    pub name: String,
    pub public: bool,
    pub is_unsafe: bool,
    pub docs: Vec<String>,
    /// ("&self" | "&mut self" | "self" | name, type)
    pub inputs: Vec<(String, String)>,
    pub output: Option<String>,
    pub body: String,
    /// ABI strings of `extern "…" fn` pointer types mentioned in the body
    pub abis_in_body: Vec<String>,
}

#[derive(Clone, Debug, Default, PartialEq, Eq)]
pub struct ImplInfo {
    pub self_ty: String,
    pub trait_: Option<String>,
    pub fns: Vec<FnInfo>,
}

#[derive(Clone, Debug, Default, PartialEq, Eq)]
pub struct FileInfo {
    pub inner_docs: Vec<String>,
    pub structs: Vec<StructInfo>,
    pub enums: Vec<EnumInfo>,
    pub impls: Vec<ImplInfo>,
    pub fns: Vec<FnInfo>,
    /// (kind, name) of every top-level item in order
    pub order: Vec<(String, String)>,
}

pub fn ts(t: &impl ToTokens) -> String {
    // normalised token string: single spaces removed around punctuation
    let s = t.to_token_stream().to_string();
    normalise(&s)
}

pub fn normalise(s: &str) -> String {
    let mut out = String::new();
    let cs: Vec<char> = s.chars().collect();
    for (i, &c) in cs.iter().enumerate() {
        if c == ' ' {
            let prev = if i > 0 { cs[i - 1] } else { ' ' };
            let next = if i + 1 < cs.len() { cs[i + 1] } else { ' ' };
            let word = |c: char| c.is_alphanumeric() || c == '_' || c == '"';
            if word(prev) && word(next) {
                out.push(' ');
            }
            continue;
        }
        out.push(c);
    }
    out
}

fn docs(attrs: &[syn::Attribute]) -> Vec<String> {
    let mut v = vec![];
    for a in attrs {
        if a.path().is_ident("doc") {
            if let syn::Meta::NameValue(nv) = &a.meta {
                if let syn::Expr::Lit(syn::ExprLit { lit: syn::Lit::Str(s), .. }) = &nv.value {
                    v.push(s.value());
                    continue;
                }
            }
            v.push(ts(a));
        }
    }
    v
}

fn list_attr(attrs: &[syn::Attribute], name: &str) -> Vec<String> {
    let mut v = vec![];
    for a in attrs {
        if a.path().is_ident(name) {
            if let syn::Meta::List(l) = &a.meta {
                let parsed = l.parse_args_with(syn::punctuated::Punctuated::<syn::Meta, syn::Token![,]>::parse_terminated);
                match parsed {
                    Ok(p) => v.extend(p.iter().map(ts)),
                    Err(_) => v.push(normalise(&l.tokens.to_string())),
                }
            }
        }
    }
    v
}

fn is_pub(v: &syn::Visibility) -> bool {
    matches!(v, syn::Visibility::Public(_))
}

struct AbiVisitor(Vec<String>);
impl<'ast> syn::visit::Visit<'ast> for AbiVisitor {
    fn visit_type_bare_fn(&mut self, t: &'ast syn::TypeBareFn) {
        self.0.push(
            t.abi
                .as_ref()
                .map(|a| a.name.as_ref().map(|n| n.value()).unwrap_or_else(|| "C".into()))
                .unwrap_or_else(|| "Rust".into()),
        );
        syn::visit::visit_type_bare_fn(self, t);
    }
}

pub fn abis_in(t: &impl ToTokens) -> Vec<String> {
    let mut v = AbiVisitor(vec![]);
    if let Ok(ty) = syn::parse2::<syn::Type>(t.to_token_stream()) {
        syn::visit::Visit::visit_type(&mut v, &ty);
    }
    v.0
}

fn fn_info(vis: &syn::Visibility, attrs: &[syn::Attribute], sig: &syn::Signature, block: &syn::Block) -> FnInfo {
    let mut inputs = vec![];
    for i in &sig.inputs {
        match i {
            syn::FnArg::Receiver(r) => {
                let s = match (&r.reference, &r.mutability) {
                    (Some(_), Some(_)) => "&mut self",
                    (Some(_), None) => "&self",
                    _ => "self",
                };
                inputs.push((s.to_string(), String::new()));
            }
            syn::FnArg::Typed(t) => inputs.push((ts(&t.pat), ts(&t.ty))),
        }
    }
    let mut av = AbiVisitor(vec![]);
    syn::visit::Visit::visit_block(&mut av, block);
    FnInfo {
        name: sig.ident.to_string(),
        public: is_pub(vis),
        is_unsafe: sig.unsafety.is_some(),
        docs: docs(attrs),
        inputs,
        output: match &sig.output {
            syn::ReturnType::Default => None,
            syn::ReturnType::Type(_, t) => Some(ts(t)),
        },
        body: ts(block),
        abis_in_body: av.0,
    }
}

pub fn file_info(text: &str) -> Result<FileInfo, String> {
    let f = syn::parse_file(text).map_err(|e| format!("emitted file does not parse: {e}"))?;
    let mut fi = FileInfo { inner_docs: docs(&f.attrs), ..Default::default() };
    for item in &f.items {
        match item {
            syn::Item::Struct(s) => {
                let mut fields = vec![];
                for fld in &s.fields {
                    fields.push(FieldInfo {
                        name: fld.ident.as_ref().map(|i| i.to_string()).unwrap_or_default(),
                        public: is_pub(&fld.vis),
                        ty: ts(&fld.ty),
                        docs: docs(&fld.attrs),
                    });
                }
                fi.order.push(("struct".into(), s.ident.to_string()));
                fi.structs.push(StructInfo {
                    name: s.ident.to_string(),
                    public: is_pub(&s.vis),
                    derives: list_attr(&s.attrs, "derive"),
                    repr: list_attr(&s.attrs, "repr"),
                    docs: docs(&s.attrs),
                    fields,
                });
            }
            syn::Item::Enum(e) => {
                let mut variants = vec![];
                for v in &e.variants {
                    variants.push(VariantInfo {
                        name: v.ident.to_string(),
                        docs: docs(&v.attrs),
                        is_default: v.attrs.iter().any(|a| a.path().is_ident("default")),
                        discr: v.discriminant.as_ref().map(|(_, e)| ts(e)),
                    });
                }
                fi.order.push(("enum".into(), e.ident.to_string()));
                fi.enums.push(EnumInfo {
                    name: e.ident.to_string(),
                    public: is_pub(&e.vis),
                    derives: list_attr(&e.attrs, "derive"),
                    repr: list_attr(&e.attrs, "repr"),
                    docs: docs(&e.attrs),
                    default_variants: variants.iter().filter(|v| v.is_default).map(|v| v.name.clone()).collect(),
                    variants,
                });
            }
            syn::Item::Impl(i) => {
                let mut fns = vec![];
                for it in &i.items {
                    if let syn::ImplItem::Fn(f) = it {
                        fns.push(fn_info(&f.vis, &f.attrs, &f.sig, &f.block));
                    }
                }
                let self_ty = ts(&i.self_ty);
                let trait_ = i.trait_.as_ref().map(|(_, p, _)| ts(p));
                fi.order.push((if trait_.is_some() { "trait_impl".into() } else { "impl".into() }, self_ty.clone()));
                fi.impls.push(ImplInfo { self_ty, trait_, fns });
            }
            syn::Item::Fn(f) => {
                fi.order.push(("fn".into(), f.sig.ident.to_string()));
                fi.fns.push(fn_info(&f.vis, &f.attrs, &f.sig, &f.block));
            }
            syn::Item::Const(c) => fi.order.push(("const".into(), c.ident.to_string())),
            syn::Item::Use(u) => fi.order.push(("use".into(), ts(&u.tree))),
            syn::Item::Static(s) => fi.order.push(("static".into(), s.ident.to_string())),
            syn::Item::Type(t) => fi.order.push(("type".into(), t.ident.to_string())),
            syn::Item::Mod(m) => fi.order.push(("mod".into(), m.ident.to_string())),
            other => fi.order.push(("other".into(), ts(other))),
        }
    }
    Ok(fi)
}

pub fn enum_info(text: &str, name: &str) -> Result<EnumInfo, String> {
    let fi = file_info(text)?;
    fi.enums.into_iter().find(|e| e.name == name).ok_or_else(|| format!("enum {name} not emitted"))
}

impl FileInfo {
    pub fn struct_(&self, name: &str) -> Option<&StructInfo> {
        self.structs.iter().find(|s| s.name == name)
    }
    pub fn enum_(&self, name: &str) -> Option<&EnumInfo> {
        self.enums.iter().find(|s| s.name == name)
    }
    /// all inherent-impl functions of a type
    pub fn methods(&self, ty: &str) -> Vec<&FnInfo> {
        self.impls.iter().filter(|i| i.trait_.is_none() && i.self_ty == ty).flat_map(|i| i.fns.iter()).collect()
    }
    pub fn method(&self, ty: &str, name: &str) -> Option<&FnInfo> {
        self.methods(ty).into_iter().find(|f| f.name == name)
    }
    pub fn trait_impls(&self, ty: &str) -> Vec<&ImplInfo> {
        self.impls.iter().filter(|i| i.trait_.is_some() && i.self_ty == ty).collect()
    }
}

/// Integer literals (decimal / hex / octal / binary, digit separators, integer suffixes) that occur in a
/// token string, in order, by value. Parsed with proc_macro2, so identifiers that contain digits,
/// float literals and string contents are not mistaken for them.
pub fn int_literals(tokens: &str) -> Vec<u128> {
    fn walk(ts: proc_macro2::TokenStream, out: &mut Vec<u128>) {
        for t in ts {
            match t {
                proc_macro2::TokenTree::Group(g) => walk(g.stream(), out),
                proc_macro2::TokenTree::Literal(l) => {
                    if let Ok(syn::Lit::Int(i)) = syn::parse_str::<syn::Lit>(&l.to_string()) {
                        if let Ok(v) = i.base10_parse::<u128>() {
                            out.push(v);
                        }
                    }
                }
                _ => {}
            }
        }
    }
    let mut out = vec![];
    if let Ok(ts) = tokens.parse::<proc_macro2::TokenStream>() {
        walk(ts, &mut out);
    }
    out
}
