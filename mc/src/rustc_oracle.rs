//! Oracle R: rustc as layout / type-check ground truth, on the host (64-bit, std) and on
//! `i686-pc-windows-msvc` / `x86_64-pc-windows-msvc` (nightly, `core` built from rust-src).

use std::{
    collections::{BTreeMap, BTreeSet},
    path::{Path, PathBuf},
    process::Command,
};

use serde_json::Value;

use crate::util;

#[derive(Clone, Copy, Debug, PartialEq, Eq, Hash, PartialOrd, Ord)]
pub enum Target {
    Host64,
    I686Msvc,
    X64Msvc,
}

impl Target {
    pub fn name(&self) -> &'static str {
        match self {
            Target::Host64 => "x86_64-unknown-linux-gnu",
            Target::I686Msvc => "i686-pc-windows-msvc",
            Target::X64Msvc => "x86_64-pc-windows-msvc",
        }
    }
    pub fn pointer_size(&self) -> usize {
        match self {
            Target::I686Msvc => 4,
            _ => 8,
        }
    }
    pub fn for_ps(ps: usize) -> Target {
        if ps == 4 {
            Target::I686Msvc
        } else {
            Target::Host64
        }
    }
    fn no_std(&self) -> bool {
        !matches!(self, Target::Host64)
    }
    /// whether the seven calling conventions exist on this target
    pub fn has_x86_abis(&self) -> bool {
        matches!(self, Target::I686Msvc)
    }
}

fn sysroot_dir(t: Target) -> PathBuf {
    util::work_dir().join("sysroot").join(t.name())
}

/// Builds `libcore` (metadata only) and a dummy `compiler_builtins` for a no_std target.
pub fn ensure_sysroot(t: Target) -> anyhow::Result<PathBuf> {
    let dir = sysroot_dir(t);
    if dir.join("ok").exists() {
        return Ok(dir);
    }
    let tmp = util::work_dir().join("sysroot").join(format!("{}.tmp{}", t.name(), std::process::id()));
    let _ = std::fs::remove_dir_all(&tmp);
    std::fs::create_dir_all(&tmp)?;
    let out = Command::new("rustc").args(["+nightly", "--print", "sysroot"]).output()?;
    anyhow::ensure!(out.status.success(), "rustc +nightly --print sysroot failed");
    let sysroot = String::from_utf8_lossy(&out.stdout).trim().to_string();
    let core_src = format!("{sysroot}/lib/rustlib/src/rust/library/core/src/lib.rs");
    anyhow::ensure!(Path::new(&core_src).exists(), "rust-src missing: {core_src}");
    let st = Command::new("rustc")
        .args([
            "+nightly",
            "--edition=2024",
            "--crate-name",
            "core",
            "--crate-type",
            "rlib",
            "--target",
            t.name(),
            "-C",
            "panic=abort",
            "-Z",
            "force-unstable-if-unmarked",
            "--emit=metadata",
            "--cap-lints",
            "allow",
            &core_src,
            "--out-dir",
        ])
        .arg(&tmp)
        .output()?;
    anyhow::ensure!(
        st.status.success(),
        "building core for {} failed: {}",
        t.name(),
        String::from_utf8_lossy(&st.stderr)
    );
    let cb = tmp.join("compiler_builtins.rs");
    std::fs::write(&cb, "#![feature(compiler_builtins)]\n#![compiler_builtins]\n#![no_std]\n")?;
    let st = Command::new("rustc")
        .args(["+nightly", "--edition=2021", "--crate-name", "compiler_builtins", "--crate-type", "rlib", "--target", t.name(), "-C", "panic=abort", "--emit=metadata", "--cap-lints", "allow", "-L"])
        .arg(&tmp)
        .arg(&cb)
        .arg("--out-dir")
        .arg(&tmp)
        .output()?;
    anyhow::ensure!(
        st.status.success(),
        "building compiler_builtins for {} failed: {}",
        t.name(),
        String::from_utf8_lossy(&st.stderr)
    );
    std::fs::write(tmp.join("ok"), "ok")?;
    if std::fs::rename(&tmp, &dir).is_err() {
        // somebody else finished first
        let _ = std::fs::remove_dir_all(&tmp);
    }
    anyhow::ensure!(dir.join("ok").exists(), "sysroot for {} not available", t.name());
    Ok(dir)
}

#[derive(Clone, Debug)]
pub struct RCase {
    /// relative file path (`m.rs`, `n/c.rs`) -> text, exactly as emitted, plus whatever the
    /// check appended (asserts)
    pub files: BTreeMap<String, String>,
    /// Rust items placed at the top of this case's root module (extern type definitions)
    pub prelude: String,
    /// files shared by all cases of a run (same content everywhere), compiled once per batch
    /// at the crate root instead of once per case; paths into them are not prefixed
    pub shared: BTreeMap<String, String>,
}

impl RCase {
    pub fn new(files: BTreeMap<String, String>) -> RCase {
        RCase { files, prelude: String::new(), shared: BTreeMap::new() }
    }
}

#[derive(Clone, Debug, PartialEq, Eq)]
pub struct Diag {
    pub code: String,
    pub message: String,
    pub file: String,
    pub line: usize,
    pub rendered: String,
}

const X86_ABIS: &[&str] = &["thiscall", "stdcall", "fastcall", "vectorcall", "cdecl", "system"];

pub fn normalise_abis(text: &str) -> String {
    let mut t = text.to_string();
    for abi in X86_ABIS {
        t = t.replace(&format!("extern \"{abi}\""), "extern \"C\"");
    }
    t
}

fn module_tree(files: &BTreeMap<String, String>) -> String {
    // tree node: children + whether a file exists for the node
    #[derive(Default)]
    struct Node {
        children: BTreeMap<String, Node>,
        has_file: bool,
    }
    let mut root = Node::default();
    for f in files.keys() {
        let stem = f.strip_suffix(".rs").unwrap_or(f);
        let mut n = &mut root;
        for seg in stem.split('/') {
            n = n.children.entry(seg.to_string()).or_default();
        }
        n.has_file = true;
    }
    fn decl(n: &Node, out: &mut String) {
        for (name, c) in &n.children {
            if c.has_file {
                // children of a file module are declared inside that file by `prepare_files`
                out.push_str(&format!("pub mod {name};\n"));
            } else {
                out.push_str(&format!("pub mod {name} {{\n"));
                decl(c, out);
                out.push_str("}\n");
            }
        }
    }
    let mut out = String::new();
    decl(&root, &mut out);
    out
}

/// For a module that has both a file and child modules, the child declarations go into the file.
fn child_decls(files: &BTreeMap<String, String>, file: &str) -> String {
    let stem = file.strip_suffix(".rs").unwrap_or(file);
    let prefix = format!("{stem}/");
    let mut names = BTreeSet::new();
    for f in files.keys() {
        if let Some(rest) = f.strip_prefix(&prefix) {
            let first = rest.split('/').next().unwrap();
            names.insert(first.strip_suffix(".rs").unwrap_or(first).to_string());
        }
    }
    names.iter().map(|n| format!("pub mod {n};\n")).collect()
}

/// Writes the case files below `dir` and returns the module declarations for the crate root.
pub fn write_case_tree(dir: &Path, t: Target, cases: &[(usize, &RCase)]) -> anyhow::Result<String> {
    let mut lib = String::new();
    let shared: BTreeMap<String, String> = cases.first().map(|c| c.1.shared.clone()).unwrap_or_default();
    for (_, case) in cases {
        anyhow::ensure!(case.shared == shared, "shared files differ between cases of one batch");
    }
    let shared_mods: Vec<String> = shared.keys().map(|f| f.strip_suffix(".rs").unwrap_or(f).replace('/', "::")).collect();
    lib.push_str(&module_tree(&shared));
    for (f, text) in &shared {
        let mut text = text.clone();
        if !t.has_x86_abis() {
            text = normalise_abis(&text);
        }
        let p = dir.join(f);
        std::fs::create_dir_all(p.parent().unwrap())?;
        std::fs::write(p, text)?;
    }
    for (id, case) in cases {
        let cname = format!("c{id:07}");
        lib.push_str(&format!("pub mod {cname} {{\n{}\n{}}}\n", case.prelude, module_tree(&case.files)));
        for (f, text) in &case.files {
            let mut text = text.replace("crate::", &format!("crate::{cname}::"));
            for sm in &shared_mods {
                text = text.replace(&format!("crate::{cname}::{sm}::"), &format!("crate::{sm}::"));
            }
            if !t.has_x86_abis() {
                text = normalise_abis(&text);
            }
            // inner attributes must stay first: child module declarations go at the end
            text.push_str(&child_decls(&case.files, f));
            let p = dir.join(&cname).join(f);
            std::fs::create_dir_all(p.parent().unwrap())?;
            std::fs::write(p, text)?;
        }
    }
    Ok(lib)
}

fn run_batch(dir: &Path, t: Target, cases: &[(usize, &RCase)]) -> anyhow::Result<(BTreeMap<usize, Vec<Diag>>, Vec<String>)> {
    let _ = std::fs::remove_dir_all(dir);
    std::fs::create_dir_all(dir)?;
    let mut lib = String::new();
    if t.no_std() {
        lib.push_str("#![no_std]\n#![feature(abi_vectorcall)]\n#![allow(warnings)]\nextern crate core as std;\n");
    } else {
        lib.push_str("#![allow(warnings)]\n");
    }
    lib.push_str(&write_case_tree(dir, t, cases)?);
    std::fs::write(dir.join("lib.rs"), lib)?;
    let mut cmd = Command::new("rustc");
    if t.no_std() {
        let sr = ensure_sysroot(t)?;
        cmd.args(["+nightly", "--target", t.name(), "-C", "panic=abort", "-L"]).arg(sr);
    }
    cmd.args(["--edition=2021", "--crate-type", "rlib", "--crate-name", "batch", "--emit=metadata", "--error-format=json", "-A", "warnings", "--out-dir"])
        .arg(".")
        .arg("lib.rs")
        .current_dir(dir);
    let out = cmd.output()?;
    let mut diags: BTreeMap<usize, Vec<Diag>> = BTreeMap::new();
    let mut unattributed = vec![];
    for line in String::from_utf8_lossy(&out.stderr).lines() {
        let Ok(v) = serde_json::from_str::<Value>(line) else {
            if !line.trim().is_empty() {
                unattributed.push(line.to_string());
            }
            continue;
        };
        if v["level"].as_str() != Some("error") {
            continue;
        }
        let message = v["message"].as_str().unwrap_or("").to_string();
        if message.starts_with("aborting due to") {
            continue;
        }
        let code = v["code"]["code"].as_str().unwrap_or("").to_string();
        let rendered = v["rendered"].as_str().unwrap_or("").to_string();
        // attribute by any span (primary first) whose file lies in a case directory
        let mut spans: Vec<&Value> = v["spans"].as_array().map(|a| a.iter().collect()).unwrap_or_default();
        spans.sort_by_key(|s| !s["is_primary"].as_bool().unwrap_or(false));
        let mut found = None;
        for s in spans {
            let mut cur = Some(s);
            // follow macro expansions to the outermost call site
            while let Some(sp) = cur {
                let f = sp["file_name"].as_str().unwrap_or("");
                if let Some(rest) = f.strip_prefix('c') {
                    if let Some((num, file)) = rest.split_once('/') {
                        if let Ok(id) = num.parse::<usize>() {
                            found = Some((id, file.to_string(), sp["line_start"].as_u64().unwrap_or(0) as usize));
                            break;
                        }
                    }
                }
                cur = sp.get("expansion").and_then(|e| e.get("span")).filter(|x| !x.is_null());
            }
            if found.is_some() {
                break;
            }
        }
        match found {
            Some((id, file, line)) => diags.entry(id).or_default().push(Diag { code, message, file, line, rendered }),
            None => unattributed.push(rendered),
        }
    }
    if !out.status.success() && diags.is_empty() && unattributed.is_empty() {
        unattributed.push(format!("rustc failed without diagnostics: {:?}", out.status));
    }
    Ok((diags, unattributed))
}

pub struct RunStats {
    pub rustc_invocations: usize,
    pub cases: usize,
}

/// Type-checks every case for `t`. Returns per-case diagnostics (empty = clean). A batch
/// with errors is re-run with the failing cases removed until clean, so that one failing
/// case cannot hide the const-evaluation of its neighbours.
pub fn check_cases(cases: &[RCase], t: Target, batch_size: usize) -> anyhow::Result<(Vec<Vec<Diag>>, RunStats)> {
    if t.no_std() {
        ensure_sysroot(t)?;
    }
    let n = cases.len();
    let nb = n.div_ceil(batch_size.max(1));
    let root = util::scratch_root().join(format!("rustc-{}", t.name()));
    let results = util::par_map(nb, |b, _| -> anyhow::Result<(BTreeMap<usize, Vec<Diag>>, usize)> {
        let lo = b * batch_size;
        let hi = ((b + 1) * batch_size).min(n);
        let mut live: Vec<(usize, &RCase)> = (lo..hi).map(|i| (i, &cases[i])).collect();
        let mut all: BTreeMap<usize, Vec<Diag>> = BTreeMap::new();
        let dir = root.join(format!("b{b}"));
        let mut runs = 0;
        loop {
            if live.is_empty() {
                break;
            }
            let (diags, unattributed) = run_batch(&dir, t, &live)?;
            runs += 1;
            if diags.is_empty() {
                anyhow::ensure!(unattributed.is_empty(), "rustc reported errors that cannot be attributed to a case:\n{}", unattributed.join("\n"));
                break;
            }
            live.retain(|(i, _)| !diags.contains_key(i));
            for (i, d) in diags {
                all.entry(i).or_default().extend(d);
            }
            anyhow::ensure!(runs < 64, "rustc batch did not converge");
        }
        let _ = std::fs::remove_dir_all(&dir);
        Ok((all, runs))
    });
    let mut out = vec![vec![]; n];
    let mut inv = 0;
    for r in results {
        let (m, runs) = r?;
        inv += runs;
        for (i, d) in m {
            out[i] = d;
        }
    }
    Ok((out, RunStats { rustc_invocations: inv, cases: n }))
}

/// Asserts the model's built-in (size, alignment) table against rustc for `t`.
pub fn validate_builtin_table(t: Target) -> anyhow::Result<()> {
    let mut text = String::from("#![allow(dead_code)]\n");
    for (name, size, align) in crate::model::BUILTINS {
        text.push_str(&format!(
            "const _: () = assert!(core::mem::size_of::<{name}>() == {size} && core::mem::align_of::<{name}>() == {align});\n"
        ));
    }
    let ps = t.pointer_size();
    text.push_str(&format!(
        "const _: () = assert!(core::mem::size_of::<*const u8>() == {ps} && core::mem::align_of::<*const u8>() == {ps});\n"
    ));
    text.push_str(&format!(
        "const _: () = assert!(core::mem::size_of::<unsafe extern \"C\" fn()>() == {ps});\n"
    ));
    let case = RCase::new(BTreeMap::from([("m.rs".to_string(), text)]));
    let (d, _) = check_cases(&[case], t, 1)?;
    anyhow::ensure!(d[0].is_empty(), "built-in table disagrees with rustc on {}: {:?}", t.name(), d[0]);
    Ok(())
}
