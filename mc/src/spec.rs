//! The harness's own small AST of a .pyxis description and its printer. Deliberately not
//! pyxis's `grammar` types: expectations are computed from *this* description.

use std::fmt::Write;

#[derive(Clone, Debug, PartialEq, Eq, Hash, PartialOrd, Ord)]
pub enum MTy {
    /// built-in scalar (`u8` … `f64`, `bool`, `void`)
    B(&'static str),
    /// pointer: (is_mut, pointee)
    Ptr(bool, Box<MTy>),
    Arr(Box<MTy>, u64),
    /// `unknown<N>`
    Unk(u64),
    /// a user / extern / enum type referred to by its short name
    User(String),
}

impl MTy {
    pub fn b(n: &'static str) -> MTy {
        MTy::B(n)
    }
    pub fn user(n: &str) -> MTy {
        MTy::User(n.to_string())
    }
    pub fn cptr(self) -> MTy {
        MTy::Ptr(false, Box::new(self))
    }
    pub fn mptr(self) -> MTy {
        MTy::Ptr(true, Box::new(self))
    }
    pub fn arr(self, n: u64) -> MTy {
        MTy::Arr(Box::new(self), n)
    }
    /// concrete pyxis syntax
    pub fn pyxis(&self) -> String {
        self.pyxis_styled(NumStyle::Dec)
    }
    /// concrete pyxis syntax with array lengths / gap sizes spelled in the given style
    pub fn pyxis_styled(&self, st: NumStyle) -> String {
        match self {
            MTy::B(n) => n.to_string(),
            MTy::Ptr(false, t) => format!("*const {}", t.pyxis_styled(st)),
            MTy::Ptr(true, t) => format!("*mut {}", t.pyxis_styled(st)),
            MTy::Arr(t, n) => format!("[{}; {}]", t.pyxis_styled(st), num(*n as i128, st)),
            MTy::Unk(n) => format!("unknown<{}>", num(*n as i128, st)),
            MTy::User(n) => n.clone(),
        }
    }
    /// Rust syntax as seen from inside the emitted module (`use super::*` in a child module).
    /// `user` maps a user type's short name to the Rust path to use.
    pub fn rust(&self, user: &dyn Fn(&str) -> String) -> String {
        match self {
            MTy::B("void") => "::core::ffi::c_void".to_string(),
            MTy::B(n) => n.to_string(),
            MTy::Ptr(false, t) => format!("*const {}", t.rust(user)),
            MTy::Ptr(true, t) => format!("*mut {}", t.rust(user)),
            MTy::Arr(t, n) => format!("[{}; {}]", t.rust(user), n),
            MTy::Unk(n) => format!("[u8; {n}]"),
            MTy::User(n) => user(n),
        }
    }
    pub fn is_ptr(&self) -> bool {
        matches!(self, MTy::Ptr(..))
    }
    /// names of user types embedded by value (through arrays)
    pub fn by_value_user(&self) -> Option<&str> {
        match self {
            MTy::User(n) => Some(n),
            MTy::Arr(t, _) => t.by_value_user(),
            _ => None,
        }
    }
    /// every user type name mentioned
    pub fn mentioned_user(&self) -> Option<&str> {
        match self {
            MTy::User(n) => Some(n),
            MTy::Arr(t, _) | MTy::Ptr(_, t) => t.mentioned_user(),
            _ => None,
        }
    }
}

#[derive(Clone, Copy, Debug, PartialEq, Eq, Hash, PartialOrd, Ord)]
pub enum NumStyle {
    Dec,
    Hex,
    Under,
}

pub fn num(v: i128, style: NumStyle) -> String {
    let (neg, a) = if v < 0 { ("-", (-v) as u128) } else { ("", v as u128) };
    match style {
        NumStyle::Dec => format!("{neg}{a}"),
        NumStyle::Hex => format!("{neg}0x{a:X}"),
        NumStyle::Under => {
            let s = a.to_string();
            // separator after the first digit (always legal), plus a trailing one
            if s.len() > 1 {
                format!("{neg}{}_{}_", &s[..1], &s[1..])
            } else {
                format!("{neg}{s}_")
            }
        }
    }
}

#[derive(Clone, Copy, Debug, PartialEq, Eq, Hash, PartialOrd, Ord)]
pub enum Recv {
    None,
    Const,
    Mut,
}

#[derive(Clone, Debug, PartialEq, Eq, Hash, PartialOrd, Ord)]
pub struct FuncS {
    pub name: String,
    pub public: bool,
    pub doc: Vec<String>,
    pub address: Option<i128>,
    pub index: Option<i128>,
    pub cc: Option<String>,
    pub extra_attrs: Vec<String>,
    pub recv: Recv,
    pub args: Vec<(String, MTy)>,
    pub ret: Option<MTy>,
}

impl FuncS {
    pub fn new(name: &str) -> FuncS {
        FuncS {
            name: name.to_string(),
            public: true,
            doc: vec![],
            address: None,
            index: None,
            cc: None,
            extra_attrs: vec![],
            recv: Recv::Const,
            args: vec![],
            ret: None,
        }
    }
}

#[derive(Clone, Debug, PartialEq, Eq, Hash, PartialOrd, Ord)]
pub struct FieldS {
    /// None = `_`
    pub name: Option<String>,
    pub public: bool,
    pub doc: Vec<String>,
    pub ty: MTy,
    pub addr: Option<i128>,
    pub base: bool,
    pub extra_attrs: Vec<String>,
}

impl FieldS {
    pub fn new(name: &str, ty: MTy) -> FieldS {
        FieldS {
            name: Some(name.to_string()),
            public: true,
            doc: vec![],
            ty,
            addr: None,
            base: false,
            extra_attrs: vec![],
        }
    }
    pub fn gap(n: u64) -> FieldS {
        FieldS {
            name: None,
            public: false,
            doc: vec![],
            ty: MTy::Unk(n),
            addr: None,
            base: false,
            extra_attrs: vec![],
        }
    }
    pub fn at(mut self, a: i128) -> FieldS {
        self.addr = Some(a);
        self
    }
    pub fn based(mut self) -> FieldS {
        self.base = true;
        self
    }
    pub fn private(mut self) -> FieldS {
        self.public = false;
        self
    }
}

#[derive(Clone, Debug, PartialEq, Eq, Hash, PartialOrd, Ord)]
pub struct VftS {
    pub size: Option<i128>,
    pub funcs: Vec<FuncS>,
}

#[derive(Clone, Debug, PartialEq, Eq, Hash, PartialOrd, Ord)]
pub struct TypeS {
    pub name: String,
    pub public: bool,
    pub doc: Vec<String>,
    pub size: Option<i128>,
    pub align: Option<i128>,
    pub singleton: Option<i128>,
    pub packed: bool,
    pub copyable: bool,
    pub cloneable: bool,
    pub defaultable: bool,
    pub extra_attrs: Vec<String>,
    pub vft: Option<VftS>,
    pub fields: Vec<FieldS>,
}

impl TypeS {
    pub fn new(name: &str) -> TypeS {
        TypeS {
            name: name.to_string(),
            public: true,
            doc: vec![],
            size: None,
            align: None,
            singleton: None,
            packed: false,
            copyable: false,
            cloneable: false,
            defaultable: false,
            extra_attrs: vec![],
            vft: None,
            fields: vec![],
        }
    }
    pub fn with_fields(mut self, f: Vec<FieldS>) -> TypeS {
        self.fields = f;
        self
    }
}

#[derive(Clone, Debug, PartialEq, Eq, Hash, PartialOrd, Ord)]
pub struct VariantS {
    pub name: String,
    pub value: Option<i128>,
    pub default: bool,
    pub doc: Vec<String>,
}

#[derive(Clone, Debug, PartialEq, Eq, Hash, PartialOrd, Ord)]
pub struct EnumS {
    pub name: String,
    pub public: bool,
    pub doc: Vec<String>,
    pub base: MTy,
    pub singleton: Option<i128>,
    pub copyable: bool,
    pub cloneable: bool,
    pub defaultable: bool,
    pub extra_attrs: Vec<String>,
    pub variants: Vec<VariantS>,
}

impl EnumS {
    pub fn new(name: &str, base: &'static str) -> EnumS {
        EnumS {
            name: name.to_string(),
            public: true,
            doc: vec![],
            base: MTy::B(base),
            singleton: None,
            copyable: false,
            cloneable: false,
            defaultable: false,
            extra_attrs: vec![],
            variants: vec![],
        }
    }
}

#[derive(Clone, Debug, PartialEq, Eq, Hash, PartialOrd, Ord)]
pub enum Item {
    Use(String),
    ExternType { name: String, size: i128, align: i128 },
    ExternValue { name: String, public: bool, ty: MTy, address: Option<i128> },
    Type(TypeS),
    Enum(EnumS),
    Impl { name: String, funcs: Vec<FuncS> },
    /// backend name, prologue, epilogue, form: 0 = `backend n prologue "…";` / `epilogue`, 1 = braces
    Backend { name: String, prologue: Option<String>, epilogue: Option<String> },
    /// raw text passed through
    Raw(String),
}

#[derive(Clone, Debug, PartialEq, Eq, Hash, PartialOrd, Ord)]
pub struct ModuleS {
    pub path: String,
    pub doc: Vec<String>,
    pub items: Vec<Item>,
}

impl ModuleS {
    pub fn new(path: &str) -> ModuleS {
        ModuleS {
            path: path.to_string(),
            doc: vec![],
            items: vec![],
        }
    }
    pub fn with(mut self, items: Vec<Item>) -> ModuleS {
        self.items = items;
        self
    }
}

pub struct Printer {
    pub style: NumStyle,
    /// write the attributes of a type in reverse order, one `#[..]` per attribute
    pub reverse_type_attrs: bool,
    /// write doc comments after the other attributes of an item instead of before them
    pub docs_after_attrs: bool,
    /// attributes of functions and fields: 0 one bracket in canonical order, 1 one bracket reversed,
    /// 2 one bracket per attribute, 3 one bracket per attribute reversed
    pub attr_order: u8,
}

impl Default for Printer {
    fn default() -> Self {
        Printer { style: NumStyle::Dec, reverse_type_attrs: false, docs_after_attrs: false, attr_order: 0 }
    }
}

impl Printer {
    /// writes an attribute list in the arrangement selected by `attr_order`
    pub fn attr_lines(&self, out: &mut String, indent: &str, mut attrs: Vec<String>) {
        if attrs.is_empty() {
            return;
        }
        if self.attr_order % 2 == 1 {
            attrs.reverse();
        }
        if self.attr_order >= 2 {
            for a in attrs {
                let _ = writeln!(out, "{indent}#[{a}]");
            }
        } else {
            let _ = writeln!(out, "{indent}#[{}]", attrs.join(", "));
        }
    }
    fn n(&self, v: i128) -> String {
        num(v, self.style)
    }
    fn docs(&self, out: &mut String, indent: &str, doc: &[String]) {
        for d in doc {
            let _ = writeln!(out, "{indent}///{d}");
        }
    }
    pub fn func(&self, out: &mut String, indent: &str, f: &FuncS) {
        if !self.docs_after_attrs {
            self.docs(out, indent, &f.doc);
        }
        let mut attrs = vec![];
        if let Some(a) = f.address {
            attrs.push(format!("address({})", self.n(a)));
        }
        if let Some(i) = f.index {
            attrs.push(format!("index({})", self.n(i)));
        }
        if let Some(cc) = &f.cc {
            attrs.push(format!("calling_convention(\"{cc}\")"));
        }
        attrs.extend(f.extra_attrs.iter().cloned());
        self.attr_lines(out, indent, attrs);
        if self.docs_after_attrs {
            self.docs(out, indent, &f.doc);
        }
        let mut args = vec![];
        match f.recv {
            Recv::None => {}
            Recv::Const => args.push("&self".to_string()),
            Recv::Mut => args.push("&mut self".to_string()),
        }
        for (n, t) in &f.args {
            args.push(format!("{n}: {}", t.pyxis_styled(self.style)));
        }
        let _ = write!(
            out,
            "{indent}{}fn {}({})",
            if f.public { "pub " } else { "" },
            f.name,
            args.join(", ")
        );
        if let Some(r) = &f.ret {
            let _ = write!(out, " -> {}", r.pyxis_styled(self.style));
        }
        let _ = writeln!(out, ";");
    }
    pub fn type_attrs(&self, t: &TypeS) -> Vec<String> {
        let mut attrs = vec![];
        if let Some(s) = t.size {
            attrs.push(format!("size({})", self.n(s)));
        }
        if let Some(a) = t.align {
            attrs.push(format!("align({})", self.n(a)));
        }
        if let Some(a) = t.singleton {
            attrs.push(format!("singleton({})", self.n(a)));
        }
        if t.packed {
            attrs.push("packed".into());
        }
        if t.copyable {
            attrs.push("copyable".into());
        }
        if t.cloneable {
            attrs.push("cloneable".into());
        }
        if t.defaultable {
            attrs.push("defaultable".into());
        }
        attrs.extend(t.extra_attrs.iter().cloned());
        attrs
    }
    pub fn type_(&self, out: &mut String, t: &TypeS) {
        if !self.docs_after_attrs {
            self.docs(out, "", &t.doc);
        }
        let attrs = self.type_attrs(t);
        if self.reverse_type_attrs {
            for a in attrs.iter().rev() {
                let _ = writeln!(out, "#[{a}]");
            }
        } else if !attrs.is_empty() {
            let _ = writeln!(out, "#[{}]", attrs.join(", "));
        }
        if self.docs_after_attrs {
            self.docs(out, "", &t.doc);
        }
        let _ = writeln!(out, "{}type {} {{", if t.public { "pub " } else { "" }, t.name);
        if let Some(v) = &t.vft {
            if let Some(s) = v.size {
                let _ = writeln!(out, "    #[size({})]", self.n(s));
            }
            let _ = writeln!(out, "    vftable {{");
            for f in &v.funcs {
                self.func(out, "        ", f);
            }
            let _ = writeln!(out, "    }},");
        }
        for f in &t.fields {
            if !self.docs_after_attrs {
                self.docs(out, "    ", &f.doc);
            }
            let mut attrs = vec![];
            if f.base {
                attrs.push("base".to_string());
            }
            if let Some(a) = f.addr {
                attrs.push(format!("address({})", self.n(a)));
            }
            attrs.extend(f.extra_attrs.iter().cloned());
            self.attr_lines(out, "    ", attrs);
            if self.docs_after_attrs {
                self.docs(out, "    ", &f.doc);
            }
            let _ = writeln!(
                out,
                "    {}{}: {},",
                if f.public { "pub " } else { "" },
                f.name.as_deref().unwrap_or("_"),
                f.ty.pyxis_styled(self.style)
            );
        }
        let _ = writeln!(out, "}}");
    }
    pub fn enum_(&self, out: &mut String, e: &EnumS) {
        if !self.docs_after_attrs {
            self.docs(out, "", &e.doc);
        }
        let mut attrs = vec![];
        if let Some(a) = e.singleton {
            attrs.push(format!("singleton({})", self.n(a)));
        }
        if e.copyable {
            attrs.push("copyable".to_string());
        }
        if e.cloneable {
            attrs.push("cloneable".to_string());
        }
        if e.defaultable {
            attrs.push("defaultable".to_string());
        }
        attrs.extend(e.extra_attrs.iter().cloned());
        if !attrs.is_empty() {
            let _ = writeln!(out, "#[{}]", attrs.join(", "));
        }
        if self.docs_after_attrs {
            self.docs(out, "", &e.doc);
        }
        let _ = writeln!(
            out,
            "{}enum {}: {} {{",
            if e.public { "pub " } else { "" },
            e.name,
            e.base.pyxis()
        );
        for v in &e.variants {
            self.docs(out, "    ", &v.doc);
            if v.default {
                let _ = writeln!(out, "    #[default]");
            }
            match v.value {
                Some(x) => {
                    let _ = writeln!(out, "    {} = {},", v.name, self.n(x));
                }
                None => {
                    let _ = writeln!(out, "    {},", v.name);
                }
            }
        }
        let _ = writeln!(out, "}}");
    }
    pub fn item(&self, out: &mut String, it: &Item) {
        match it {
            Item::Use(p) => {
                let _ = writeln!(out, "use {p};");
            }
            Item::ExternType { name, size, align } => {
                let _ = writeln!(
                    out,
                    "#[size({}), align({})]\nextern type {name};",
                    self.n(*size),
                    self.n(*align)
                );
            }
            Item::ExternValue { name, public, ty, address } => {
                if let Some(a) = address {
                    let _ = writeln!(out, "#[address({})]", self.n(*a));
                }
                let _ = writeln!(
                    out,
                    "{}extern {name}: {};",
                    if *public { "pub " } else { "" },
                    ty.pyxis()
                );
            }
            Item::Type(t) => self.type_(out, t),
            Item::Enum(e) => self.enum_(out, e),
            Item::Impl { name, funcs } => {
                let _ = writeln!(out, "impl {name} {{");
                for f in funcs {
                    self.func(out, "    ", f);
                }
                let _ = writeln!(out, "}}");
            }
            Item::Backend { name, prologue, epilogue } => {
                let _ = writeln!(out, "backend {name} {{");
                if let Some(p) = prologue {
                    let _ = writeln!(out, "    prologue r#\"\n{p}\n\"#;");
                }
                if let Some(e) = epilogue {
                    let _ = writeln!(out, "    epilogue r#\"\n{e}\n\"#;");
                }
                let _ = writeln!(out, "}}");
            }
            Item::Raw(s) => {
                let _ = writeln!(out, "{s}");
            }
        }
    }
    pub fn module(&self, m: &ModuleS) -> String {
        let mut out = String::new();
        for d in &m.doc {
            let _ = writeln!(out, "//!{d}");
        }
        for it in &m.items {
            self.item(&mut out, it);
        }
        out
    }
}

pub fn print_module(m: &ModuleS) -> String {
    Printer::default().module(m)
}

pub fn to_input(mods: &[ModuleS]) -> crate::pipe::Input {
    crate::pipe::Input {
        modules: mods.iter().map(|m| (m.path.clone(), print_module(m))).collect(),
    }
}

/// `to_input` with the attributes of functions and fields arranged as `attr_order` says (see `Printer`).
pub fn to_input_arranged(mods: &[ModuleS], attr_order: u8) -> crate::pipe::Input {
    let p = Printer { attr_order, ..Printer::default() };
    crate::pipe::Input {
        modules: mods.iter().map(|m| (m.path.clone(), p.module(m))).collect(),
    }
}
