//! Shared bounded description spaces (DESIGN §5). A space is an indexable, deterministic
//! enumeration: `len()` and `get(i)`; nothing here calls pyxis.

use crate::{model::*, spec::*, util};

/// (type, named): `named == false` prints the field as `_: T`.
pub fn field_types(tier: &str, with_aux: bool) -> Vec<(MTy, bool)> {
    let mut v: Vec<(MTy, bool)> = field_types_named(tier, with_aux).into_iter().map(|t| (t, true)).collect();
    v.push((MTy::Unk(3), false));
    if tier == "thorough" {
        v.push((MTy::Unk(8), false));
        v.push((MTy::Unk(0), false));
        v.push((MTy::b("u32"), false));
    }
    v
}

fn field_types_named(tier: &str, with_aux: bool) -> Vec<MTy> {
    let mut v = vec![
        MTy::b("u8"),
        MTy::b("u16"),
        MTy::b("u32"),
        MTy::b("u64"),
        MTy::b("f64"),
        MTy::b("u8").cptr(),
        MTy::b("u16").arr(3),
        MTy::Unk(3),
    ];
    if with_aux {
        v.extend([
            MTy::user("Inner4"),
            MTy::user("Inner16"),
            MTy::user("Ext12"),
            MTy::user("En16"),
            MTy::user("T").mptr(),
        ]);
    }
    if tier == "thorough" {
        v.extend([
            MTy::b("bool"),
            MTy::b("i32"),
            MTy::b("u128"),
            MTy::b("f32"),
            MTy::b("u8").arr(5),
            MTy::b("u32").arr(2),
            MTy::b("u8").arr(2).arr(3),
            MTy::b("u8").mptr().cptr(),
            MTy::Unk(1),
            MTy::Unk(8),
            MTy::b("u8").arr(0),
            MTy::Unk(0),
        ]);
    }
    v
}

pub fn sub_field_types() -> Vec<(MTy, bool)> {
    vec![(MTy::b("u8"), true), (MTy::b("u32"), true), (MTy::b("u64"), true), (MTy::b("u8").cptr(), true)]
}

pub fn addresses(tier: &str) -> Vec<Option<i128>> {
    let mut v: Vec<Option<i128>> = vec![None, Some(0), Some(2), Some(4), Some(8), Some(12), Some(16)];
    if tier == "thorough" {
        v.extend([Some(1), Some(6), Some(24), Some(0x20), Some(-1)]);
    }
    v
}

pub fn sub_addresses() -> Vec<Option<i128>> {
    vec![None, Some(4), Some(8), Some(16)]
}

/// size attribute choices, relative to the natural end `nat`
pub fn size_choices(nat: u64) -> Vec<Option<i128>> {
    let n = nat as i128;
    vec![None, Some(n), Some(n + 1), Some(n + 4), Some(n + 8), Some(n - 1)]
}
pub const N_SIZE_CHOICES: usize = 6;

pub fn align_choices(tier: &str) -> Vec<Option<i128>> {
    let mut v: Vec<Option<i128>> = vec![None, Some(1), Some(2), Some(4), Some(8), Some(16), Some(0), Some(3)];
    if tier == "thorough" {
        v.extend([Some(12), Some(32), Some(-1)]);
    }
    v
}

/// The auxiliary definitions that accompany a layout case when `with_aux`.
pub fn aux_items() -> Vec<Item> {
    let mut inner4 = TypeS::new("Inner4");
    inner4.fields = vec![FieldS::new("a", MTy::b("u32"))];
    let mut inner16 = TypeS::new("Inner16");
    inner16.align = Some(8);
    inner16.fields = vec![FieldS::new("a", MTy::b("u64")), FieldS::new("b", MTy::b("u32").arr(2))];
    let mut en = EnumS::new("En16", "u16");
    en.variants = vec![
        VariantS { name: "A".into(), value: None, default: false, doc: vec![] },
        VariantS { name: "B".into(), value: Some(7), default: false, doc: vec![] },
    ];
    vec![
        Item::ExternType { name: "Ext12".into(), size: 12, align: 4 },
        Item::Type(inner4),
        Item::Type(inner16),
        Item::Enum(en),
    ]
}

pub fn aux_env() -> Env {
    Env::default()
        .with("Inner4", (4, 4), (4, 4))
        .with("Inner16", (16, 8), (16, 8))
        .with("Ext12", (12, 4), (12, 4))
        .with("En16", (2, 2), (2, 2))
}

/// Rust definition for the extern type supplied by the harness when compiling.
pub fn aux_extern_rust() -> &'static str {
    // alignment 4 through the element type, not through repr(align): a packed type may then embed it
    "#[repr(C)] #[derive(Clone, Copy, Default)] pub struct Ext12(pub [u32; 3]);\n"
}

#[derive(Clone, Debug)]
pub struct LayoutSpace {
    pub tier: String,
    pub with_aux: bool,
    types: Vec<(MTy, bool)>,
    addrs: Vec<Option<i128>>,
    sub_types: Vec<(MTy, bool)>,
    sub_addrs: Vec<Option<i128>>,
    aligns: Vec<Option<i128>>,
    /// number of field lists with k fields from the full alphabet, for k = 0..=kmax
    full_counts: Vec<usize>,
    kmax_full: usize,
    k_sub: usize,
    sub_count: usize,
    attr_radices: Vec<usize>,
    size_sel: Vec<usize>,
    pub env: Env,
}

#[derive(Clone, Debug)]
pub struct LayoutCase {
    pub index: usize,
    pub ty: TypeS,
    pub k: usize,
}

impl LayoutSpace {
    /// `reduced_attrs`: the attribute dimension is cut to 3 sizes x 4 aligns (used by the
    /// quick tier of the checks that compile every accepted case).
    pub fn new_reduced(tier: &str, with_aux: bool) -> LayoutSpace {
        let mut s = LayoutSpace::new(tier, with_aux);
        if tier != "thorough" {
            s.aligns = vec![None, Some(4), Some(8), Some(16)];
            s.size_sel = vec![0, 1, 4];
            s.attr_radices = vec![s.size_sel.len(), s.aligns.len(), 2, 2];
        }
        s
    }
    pub fn new(tier: &str, with_aux: bool) -> LayoutSpace {
        let types = field_types(tier, with_aux);
        let addrs = addresses(tier);
        let per_field = types.len() * addrs.len();
        let kmax_full = if tier == "thorough" { 3 } else { 2 };
        let k_sub = kmax_full + 1;
        let full_counts: Vec<usize> = (0..=kmax_full).map(|k| per_field.pow(k as u32)).collect();
        let sub_types = sub_field_types();
        let sub_addrs = sub_addresses();
        let sub_count = (sub_types.len() * sub_addrs.len()).pow(k_sub as u32);
        let aligns = align_choices(tier);
        // size choice, align choice, packed, vftable
        let attr_radices = vec![N_SIZE_CHOICES, aligns.len(), 2, 2];
        LayoutSpace {
            tier: tier.to_string(),
            with_aux,
            types,
            addrs,
            sub_types,
            sub_addrs,
            aligns,
            full_counts,
            kmax_full,
            k_sub,
            sub_count,
            attr_radices,
            size_sel: (0..N_SIZE_CHOICES).collect(),
            env: if with_aux { aux_env() } else { Env::default() },
        }
    }
    pub fn field_lists(&self) -> usize {
        self.full_counts.iter().sum::<usize>() + self.sub_count
    }
    pub fn attr_combos(&self) -> usize {
        util::product(&self.attr_radices)
    }
    pub fn len(&self) -> usize {
        self.field_lists() * self.attr_combos()
    }
    fn fields(&self, mut fl: usize) -> Vec<FieldS> {
        let per_field = self.types.len() * self.addrs.len();
        for k in 0..=self.kmax_full {
            if fl < self.full_counts[k] {
                let mut out = vec![];
                for i in 0..k {
                    let d = fl % per_field;
                    fl /= per_field;
                    let (ty, named) = self.types[d % self.types.len()].clone();
                    let mut f = FieldS::new(&format!("f{i}"), ty);
                    if !named {
                        f.name = None;
                        f.public = false;
                    }
                    f.addr = self.addrs[d / self.types.len()];
                    out.push(f);
                }
                return out;
            }
            fl -= self.full_counts[k];
        }
        let per_sub = self.sub_types.len() * self.sub_addrs.len();
        let mut out = vec![];
        for i in 0..self.k_sub {
            let d = fl % per_sub;
            fl /= per_sub;
            let mut f = FieldS::new(&format!("f{i}"), self.sub_types[d % self.sub_types.len()].0.clone());
            f.addr = self.sub_addrs[d / self.sub_types.len()];
            out.push(f);
        }
        out
    }
    pub fn get(&self, index: usize, ps: u64) -> LayoutCase {
        let ac = self.attr_combos();
        let fl = index / ac;
        let d = util::decode(index % ac, &self.attr_radices);
        let mut t = TypeS::new("T");
        t.fields = self.fields(fl);
        t.packed = d[2] == 1;
        if d[3] == 1 {
            let mut f = FuncS::new("v0");
            f.recv = Recv::Const;
            t.vft = Some(VftS { size: None, funcs: vec![f] });
        }
        t.align = self.aligns[d[1]];
        // natural end computed by the model, ignoring rejections
        let lay = layout(&t, ps, &self.env, t.vft.is_some());
        let nat = lay.offsets.last().map(|o| o + lay.sizes.last().unwrap()).unwrap_or(if t.vft.is_some() { ps } else { 0 });
        t.size = size_choices(nat)[self.size_sel[d[0]]];
        let k = t.fields.len();
        LayoutCase { index, ty: t, k }
    }
    /// The modules of a case: the type in module `m`; with auxiliary definitions, those live
    /// in a second module `aux` that `m` imports (identical for every case).
    pub fn modules_for(&self, t: &TypeS) -> Vec<ModuleS> {
        if self.with_aux {
            vec![
                ModuleS::new("aux").with(aux_items()),
                ModuleS::new("m").with(vec![Item::Use("aux".into()), Item::Type(t.clone())]),
            ]
        } else {
            vec![ModuleS::new("m").with(vec![Item::Type(t.clone())])]
        }
    }
}
