//! Shared bounded description spaces (DESIGN §5). A space is an indexable, deterministic
//! enumeration: `len()` and `get(i)`; nothing here calls pyxis.

use crate::{model::*, spec::*, util};

/// (type, named): `named == false` prints the field as `_: T`.
pub fn field_types(tier: &str, with_aux: bool) -> Vec<(MTy, bool)> {
    let mut v: Vec<(MTy, bool)> = field_types_named(tier, with_aux).into_iter().map(|t| (t, true)).collect();
    v.push((MTy::Unk(3), false));
    if tier == "thorough" {
        v.push((MTy::Unk(8), false));
        v.push((MTy::Unk(0), false));
        v.push((MTy::b("u32"), false));
    }
    v
}

/// Field types that are used as `#[base]` fields (auxiliary space only).
pub fn base_field_types() -> Vec<MTy> {
    vec![MTy::user("Inner4"), MTy::user("InnerV")]
}

fn field_types_named(tier: &str, with_aux: bool) -> Vec<MTy> {
    let mut v = vec![
        MTy::b("u8"),
        MTy::b("u16"),
        MTy::b("u32"),
        MTy::b("u64"),
        MTy::b("f64"),
        MTy::b("u8").cptr(),
        MTy::b("u16").arr(3),
        MTy::Unk(3),
    ];
    if with_aux {
        v.extend([
            MTy::user("Inner4"),
            MTy::user("Inner16"),
            MTy::user("Ext12"),
            MTy::user("En16"),
            MTy::user("Empty8"),
            MTy::user("T").mptr(),
        ]);
    }
    if tier == "thorough" {
        v.extend([
            MTy::b("bool"),
            MTy::b("i32"),
            MTy::b("u128"),
            MTy::b("f32"),
            MTy::b("u8").arr(5),
            MTy::b("u32").arr(2),
            MTy::b("u8").arr(2).arr(3),
            MTy::b("u8").mptr().cptr(),
            MTy::Unk(1),
            MTy::Unk(8),
            MTy::b("u8").arr(0),
            MTy::Unk(0),
        ]);
    }
    v
}

pub fn sub_field_types() -> Vec<(MTy, bool)> {
    vec![(MTy::b("u8"), true), (MTy::b("u32"), true), (MTy::b("u64"), true), (MTy::b("u8").cptr(), true)]
}

pub fn addresses(tier: &str) -> Vec<Option<i128>> {
    let mut v: Vec<Option<i128>> = vec![None, Some(0), Some(2), Some(4), Some(8), Some(12), Some(16)];
    if tier == "thorough" {
        v.extend([Some(1), Some(6), Some(24), Some(0x20), Some(-1)]);
    }
    v
}

pub fn sub_addresses() -> Vec<Option<i128>> {
    vec![None, Some(4), Some(8), Some(16)]
}

/// size attribute choices, relative to the natural end `nat`
pub fn size_choices(nat: u64) -> Vec<Option<i128>> {
    let n = nat as i128;
    vec![None, Some(n), Some(n + 1), Some(n + 4), Some(n + 8), Some(n - 1)]
}
pub const N_SIZE_CHOICES: usize = 6;

pub fn align_choices(tier: &str) -> Vec<Option<i128>> {
    let mut v: Vec<Option<i128>> = vec![None, Some(1), Some(2), Some(4), Some(8), Some(16), Some(0), Some(3)];
    if tier == "thorough" {
        v.extend([Some(12), Some(32), Some(-1)]);
    }
    v
}

/// The auxiliary definitions that accompany a layout case when `with_aux`.
pub fn aux_items() -> Vec<Item> {
    let mut inner4 = TypeS::new("Inner4");
    inner4.fields = vec![FieldS::new("a", MTy::b("u32"))];
    let mut inner16 = TypeS::new("Inner16");
    inner16.align = Some(8);
    inner16.fields = vec![FieldS::new("a", MTy::b("u64")), FieldS::new("b", MTy::b("u32").arr(2))];
    let mut en = EnumS::new("En16", "u16");
    en.variants = vec![
        VariantS { name: "A".into(), value: None, default: false, doc: vec![] },
        VariantS { name: "B".into(), value: Some(7), default: false, doc: vec![] },
    ];
    // a type with a vftable of its own: as a first #[base] it supplies the vftable pointer
    let mut innerv = TypeS::new("InnerV");
    innerv.vft = Some(VftS { size: None, funcs: vec![FuncS::new("v")] });
    innerv.fields = vec![FieldS::new("a", MTy::b("u8").cptr())];
    // an empty but over-aligned type: occupies no bytes, still constrains where it may sit
    let mut empty8 = TypeS::new("Empty8");
    empty8.align = Some(8);
    vec![
        Item::ExternType { name: "Ext12".into(), size: 12, align: 4 },
        Item::Type(empty8),
        Item::Type(innerv),
        Item::Type(inner4),
        Item::Type(inner16),
        Item::Enum(en),
    ]
}

pub fn aux_env() -> Env {
    Env::default()
        .with("Inner4", (4, 4), (4, 4))
        .with("Inner16", (16, 8), (16, 8))
        .with("Ext12", (12, 4), (12, 4))
        .with("En16", (2, 2), (2, 2))
        .with("InnerV", (8, 4), (16, 8))
        .with("Empty8", (0, 8), (0, 8))
}

/// Rust definition for the extern type supplied by the harness when compiling.
pub fn aux_extern_rust() -> &'static str {
    // alignment 4 through the element type, not through repr(align): a packed type may then embed it
    "#[repr(C)] #[derive(Clone, Copy, Default)] pub struct Ext12(pub [u32; 3]);\n"
}

/// One homogeneous block of the layout space: all field lists of length `k` over an alphabet,
/// times an attribute product.
#[derive(Clone, Debug)]
struct Block {
    k: usize,
    /// (type, named, is #[base])
    fields: Vec<(MTy, bool, bool)>,
    addrs: Vec<Option<i128>>,
    size_sel: Vec<usize>,
    aligns: Vec<Option<i128>>,
}

impl Block {
    fn lists(&self) -> usize {
        (self.fields.len() * self.addrs.len()).pow(self.k as u32)
    }
    fn attr_radices(&self) -> Vec<usize> {
        // size choice, align choice, packed, vftable
        vec![self.size_sel.len(), self.aligns.len(), 2, 2]
    }
    fn len(&self) -> usize {
        self.lists() * util::product(&self.attr_radices())
    }
}

#[derive(Clone, Debug)]
pub struct LayoutSpace {
    pub tier: String,
    pub with_aux: bool,
    blocks: Vec<Block>,
    /// hand-shaped families appended after the blocks (types with 10..16 fields)
    long: Vec<TypeS>,
    pub env: Env,
}

/// Types with 10, 11 and 16 fields `f0..`: one scalar type (or two alternating) laid out contiguously or
/// on a stride from a start offset, with and without a vftable, each also with one address moved by
/// one byte up or down at the second, tenth and last field. Realisability is left to the model.
pub fn long_types() -> Vec<TypeS> {
    let mut out = vec![];
    let kinds: [(&[&str], [Option<i128>; 4]); 4] = [
        (&["u8"], [None, Some(2), Some(16), Some(0x100)]),
        (&["u32"], [None, Some(8), Some(16), Some(0x100)]),
        (&["*const u8"], [None, Some(8), Some(16), Some(0x100)]),
        (&["u8", "u32"], [None, Some(8), Some(16), Some(0x100)]),
    ];
    for n in [10usize, 11, 16] {
        for (tys, strides) in kinds {
            for stride in strides {
                for start in [0i128, 16] {
                    if stride.is_none() && start != 0 {
                        continue;
                    }
                    for vft in [false, true] {
                        let mk = |moved: Option<(usize, i128)>| {
                            let mut t = TypeS::new("T");
                            for i in 0..n {
                                let ty = match tys[i % tys.len()] {
                                    "*const u8" => MTy::b("u8").cptr(),
                                    b => MTy::B(if b == "u8" { "u8" } else { "u32" }),
                                };
                                let mut f = FieldS::new(&format!("f{i}"), ty);
                                f.addr = stride.map(|s| start + i as i128 * s);
                                if let Some((j, d)) = moved {
                                    if j == i {
                                        // contiguous fields have no address: the moved one gets a small absolute one
                                        f.addr = Some(f.addr.unwrap_or(i as i128 * 4) + d);
                                    }
                                }
                                t.fields.push(f);
                            }
                            if vft {
                                let mut f = FuncS::new("v");
                                f.recv = Recv::Const;
                                t.vft = Some(VftS { size: None, funcs: vec![f] });
                            }
                            t
                        };
                        out.push(mk(None));
                        for j in [1, 9, n - 1] {
                            for d in [-1i128, 1] {
                                out.push(mk(Some((j, d))));
                            }
                        }
                    }
                }
            }
        }
    }
    out
}

#[derive(Clone, Debug)]
pub struct LayoutCase {
    pub index: usize,
    pub ty: TypeS,
    pub k: usize,
}

impl LayoutSpace {
    /// `reduced`: in the quick tier the attribute dimension is cut to 3 sizes x 4 aligns (used by
    /// the checks that compile every accepted case).
    pub fn new_reduced(tier: &str, with_aux: bool) -> LayoutSpace {
        LayoutSpace::build(tier, with_aux, true)
    }
    pub fn new(tier: &str, with_aux: bool) -> LayoutSpace {
        LayoutSpace::build(tier, with_aux, false)
    }
    fn build(tier: &str, with_aux: bool, reduced: bool) -> LayoutSpace {
        let alphabet = |t: &str| -> Vec<(MTy, bool, bool)> {
            let mut v: Vec<(MTy, bool, bool)> = field_types(t, with_aux).into_iter().map(|(ty, named)| (ty, named, false)).collect();
            if with_aux {
                v.extend(base_field_types().into_iter().map(|ty| (ty, true, true)));
            }
            v
        };
        let sub: Vec<(MTy, bool, bool)> = sub_field_types().into_iter().map(|(ty, n)| (ty, n, false)).collect();
        let all_sizes: Vec<usize> = (0..N_SIZE_CHOICES).collect();
        let red_sizes = vec![0, 1, 4];
        let red_aligns = vec![None, Some(4), Some(8), Some(16)];
        let mut blocks = vec![];
        if tier == "thorough" {
            // k <= 2 over the thorough alphabet with every attribute combination
            for k in 0..=2 {
                blocks.push(Block { k, fields: alphabet("thorough"), addrs: addresses("thorough"), size_sel: all_sizes.clone(), aligns: align_choices("thorough") });
            }
            // k = 3 over a medium alphabet (the sub-alphabet plus, with auxiliary definitions, a
            // nested struct, the empty aligned type and a base field) with the reduced attributes
            let mut medium = sub.clone();
            medium.push((MTy::b("u16").arr(3), true, false));
            medium.push((MTy::Unk(3), false, false));
            if with_aux {
                medium.push((MTy::user("Inner4"), true, false));
                medium.push((MTy::user("Empty8"), true, false));
                medium.push((MTy::user("Inner4"), true, true));
            }
            blocks.push(Block { k: 3, fields: medium, addrs: addresses("quick"), size_sel: red_sizes.clone(), aligns: red_aligns.clone() });
            // k = 4 over the sub-alphabet
            blocks.push(Block { k: 4, fields: sub.clone(), addrs: sub_addresses(), size_sel: all_sizes.clone(), aligns: align_choices("quick") });
        } else {
            let (sizes, aligns) = if reduced { (red_sizes, red_aligns) } else { (all_sizes, align_choices("quick")) };
            for k in 0..=2 {
                blocks.push(Block { k, fields: alphabet("quick"), addrs: addresses("quick"), size_sel: sizes.clone(), aligns: aligns.clone() });
            }
            blocks.push(Block { k: 3, fields: sub.clone(), addrs: sub_addresses(), size_sel: sizes.clone(), aligns: aligns.clone() });
        }
        // every built-in scalar (the quick alphabet only has a few): alone at each of a set of
        // addresses, and every pair of them placed implicitly
        let builtins: Vec<(MTy, bool, bool)> = BUILTINS.iter().map(|(n, _, _)| (MTy::B(n), true, false)).chain(std::iter::once((MTy::b("u8").mptr(), true, false))).collect();
        let sweep_addrs = vec![None, Some(0), Some(1), Some(2), Some(4), Some(8), Some(16), Some(24)];
        let (sizes, aligns) = if reduced && tier != "thorough" { (vec![0, 1, 4], vec![None, Some(4), Some(8), Some(16)]) } else { ((0..N_SIZE_CHOICES).collect(), align_choices("quick")) };
        blocks.push(Block { k: 1, fields: builtins.clone(), addrs: sweep_addrs, size_sel: sizes.clone(), aligns: aligns.clone() });
        blocks.push(Block { k: 2, fields: builtins, addrs: vec![None], size_sel: sizes.clone(), aligns: aligns.clone() });
        // zero-length arrays, named and unnamed, with and without addresses, next to ordinary fields
        let zero: Vec<(MTy, bool, bool)> = vec![
            (MTy::b("u8"), true, false),
            (MTy::b("u32"), true, false),
            (MTy::b("u8").arr(0), true, false),
            (MTy::b("u32").arr(0), true, false),
            (MTy::Unk(0), false, false),
        ];
        blocks.push(Block { k: 2, fields: zero.clone(), addrs: vec![None, Some(4), Some(8), Some(16)], size_sel: sizes.clone(), aligns: aligns.clone() });
        blocks.push(Block { k: 3, fields: zero, addrs: vec![None, Some(8)], size_sel: vec![0], aligns: vec![None, Some(4)] });
        // addresses with three to five hex digits (generated padding of hundreds / thousands of bytes)
        blocks.push(Block { k: 2, fields: sub.clone(), addrs: vec![None, Some(0x100), Some(0xFF8), Some(0x10000)], size_sel: vec![0, 1, 4], aligns: vec![None, Some(8)] });
        LayoutSpace { tier: tier.to_string(), with_aux, blocks, long: long_types(), env: if with_aux { aux_env() } else { Env::default() } }
    }
    /// The space without the three-field block over the scalar sub-alphabet (quick tier of C13: those cases are
    /// compiled by C01 / C02 already and contain nothing but scalars and pointers).
    pub fn without_scalar_triples(mut self) -> LayoutSpace {
        if self.tier != "thorough" {
            self.blocks.retain(|b| !(b.k == 3 && b.fields.len() == 4 && b.addrs.len() == 4));
        }
        self
    }
    /// The space without the long-type family (for checks whose cost grows with the number of fields).
    pub fn without_long(mut self) -> LayoutSpace {
        self.long.clear();
        self
    }
    pub fn len(&self) -> usize {
        self.blocks.iter().map(|b| b.len()).sum::<usize>() + self.long.len()
    }
    pub fn describe(&self) -> String {
        self.blocks
            .iter()
            .map(|b| format!("k={}: ({} field forms x {} addresses)^{} x {} sizes x {} aligns x packed x vftable = {}", b.k, b.fields.len(), b.addrs.len(), b.k, b.size_sel.len(), b.aligns.len(), b.len()))
            .chain(std::iter::once(format!("types with 10 / 11 / 16 fields on strides, with one-byte moves = {}", self.long.len())))
            .collect::<Vec<_>>()
            .join("; ")
    }
    pub fn get(&self, index: usize, ps: u64) -> LayoutCase {
        let n_blocks: usize = self.blocks.iter().map(|b| b.len()).sum();
        if index >= n_blocks {
            let ty = self.long[index - n_blocks].clone();
            let k = ty.fields.len();
            return LayoutCase { index, ty, k };
        }
        let mut rest = index;
        let mut block = &self.blocks[0];
        for b in &self.blocks {
            if rest < b.len() {
                block = b;
                break;
            }
            rest -= b.len();
        }
        let radices = block.attr_radices();
        let ac = util::product(&radices);
        let mut fl = rest / ac;
        let d = util::decode(rest % ac, &radices);
        let mut t = TypeS::new("T");
        let per_field = block.fields.len() * block.addrs.len();
        for i in 0..block.k {
            let x = fl % per_field;
            fl /= per_field;
            let (ty, named, base) = block.fields[x % block.fields.len()].clone();
            let mut f = FieldS::new(&format!("f{i}"), ty);
            f.base = base;
            if !named {
                f.name = None;
                f.public = false;
            }
            f.addr = block.addrs[x / block.fields.len()];
            t.fields.push(f);
        }
        t.packed = d[2] == 1;
        if d[3] == 1 {
            // the same slot as the auxiliary base `InnerV` declares: with that type as first base the
            // block is a legal re-declaration and the pointer is shared, anywhere else the type owns one
            let mut f = FuncS::new("v");
            f.recv = Recv::Const;
            t.vft = Some(VftS { size: None, funcs: vec![f] });
        }
        t.align = block.aligns[d[1]];
        // natural end computed by the model, ignoring rejections
        let lay = layout(&t, ps, &self.env, t.vft.is_some());
        let nat = lay.offsets.last().map(|o| o + lay.sizes.last().unwrap()).unwrap_or(if t.vft.is_some() { ps } else { 0 });
        t.size = size_choices(nat)[block.size_sel[d[0]]];
        let k = t.fields.len();
        LayoutCase { index, ty: t, k }
    }
    /// The modules of a case: the type in module `m`; with auxiliary definitions, those live
    /// in a second module `aux` that `m` imports (identical for every case).
    pub fn modules_for(&self, t: &TypeS) -> Vec<ModuleS> {
        if self.with_aux {
            vec![
                ModuleS::new("aux").with(aux_items()),
                ModuleS::new("m").with(vec![Item::Use("aux".into()), Item::Type(t.clone())]),
            ]
        } else {
            vec![ModuleS::new("m").with(vec![Item::Type(t.clone())])]
        }
    }
}
