//! C15 — singleton and extern-value accessors address the declared location.
//! E1 over singleton / extern-value declarations; oracles X (execution with data pages mapped
//! at the declared absolute addresses) and S (address literal in the accessor).

use std::collections::BTreeMap;

use serde_json::{json, Value};

use crate::{checks::c05::EXEC_ADDRS, exec_oracle::*, pipe, report::*, rustc_oracle::RCase, spec::*, synx};

const TEXT_ONLY: &[u64] = &[0, 8, 0x123, 0x7FFF_FFFF_FFFF_FFF0, 0x7FFF_FFF0, 0x8000_0000, 0xFFFF_FFF0, 0x1_0000_0000, 0x8000_0000_0000_0000, 0xFFFF_FFFF_8000_1000, 0xFFFF_FFFF_FFFF_FFF0];

#[derive(Clone, Debug)]
struct Case {
    kind: &'static str, // struct_singleton | enum_singleton | extern_value | extern_without_address
    addr: u64,
    style: NumStyle,
    ety: usize, // extern value type selector
    exec: bool,
    public: bool,
    /// how the attribute that carries the address is surrounded (0 = as printed), see `recontext`
    ctx: usize,
}

const ETYS: &[(&str, &str)] = &[("u32", "u32"), ("*mut u8", "*mut u8"), ("[u16; 4]", "[u16;4]"), ("S", "crate::m::S"), ("*const S", "*const crate::m::S"), ("E", "crate::m::E"), ("u64", "u64")];

fn cases() -> Vec<Case> {
    let mut out = vec![];
    let styles = [NumStyle::Dec, NumStyle::Hex, NumStyle::Under];
    let mut k = 0;
    for (exec, addrs) in [(true, EXEC_ADDRS), (false, TEXT_ONLY)] {
        for a in addrs {
            for st in styles {
                for kind in ["struct_singleton", "opaque_struct_singleton", "enum_singleton"] {
                    k += 1;
                    out.push(Case { kind, addr: *a + 0x800 * exec as u64, style: st, ety: 0, exec, public: k % 2 == 0, ctx: 0 });
                }
                for ety in 0..ETYS.len() {
                    k += 1;
                    out.push(Case { kind: "extern_value", addr: *a + 0x900 * exec as u64, style: st, ety, exec, public: k % 2 == 0, ctx: 0 });
                }
            }
        }
    }
    // the attribute that carries the address, surrounded by doc lines and other attributes in every order
    for (kind, ety) in [("struct_singleton", 0usize), ("opaque_struct_singleton", 0), ("enum_singleton", 0), ("extern_value", 0), ("extern_value", 3)] {
        // 7..=10 (extern values only): another single-integer attribute, which extern values ignore, next to it
        let top = if kind == "extern_value" { 10 } else { 6 };
        for ctx in 1..=top {
            out.push(Case { kind, addr: EXEC_ADDRS[1] + 0xB00, style: NumStyle::Hex, ety, exec: true, public: true, ctx });
        }
    }
    // a module that holds nothing but extern values
    for ety in [0usize, 1, 2] {
        out.push(Case { kind: "extern_value_only_module", addr: EXEC_ADDRS[1] + 0x900, style: NumStyle::Hex, ety, exec: true, public: true, ctx: 0 });
    }
    // the value's type is also defined by imported modules that sort before / after the module
    for ety in [3usize, 4, 5] {
        out.push(Case { kind: "extern_value_with_imports", addr: 0x10900, style: NumStyle::Hex, ety, exec: false, public: true, ctx: 0 });
    }
    for ety in 0..ETYS.len() {
        out.push(Case { kind: "extern_without_address", addr: 0, style: NumStyle::Dec, ety, exec: false, public: true, ctx: 0 });
        // ... also when another extern value before it does have one
        out.push(Case { kind: "extern_without_address_after_addressed", addr: 0x10900, style: NumStyle::Hex, ety, exec: false, public: true, ctx: 0 });
    }
    out
}

fn module_of(c: &Case) -> String {
    let mut s = TypeS::new("S");
    s.fields = vec![FieldS::new("a", MTy::b("u64")), FieldS::new("b", MTy::b("u32")), FieldS::new("c", MTy::b("u32"))];
    s.public = c.public;
    s.align = Some(8);
    let mut e = EnumS::new("E", "u32");
    e.public = c.public;
    // with and without Copy: the accessor returns the enum by value either way
    e.copyable = c.public;
    e.variants = vec![
        VariantS { name: "A".into(), value: None, default: false, doc: vec![] },
        VariantS { name: "B".into(), value: Some(7), default: false, doc: vec![] },
        VariantS { name: "C".into(), value: Some(0x7fff_ffff), default: false, doc: vec![] },
    ];
    let mut items = vec![];
    match c.kind {
        "struct_singleton" => s.singleton = Some(c.addr as i128),
        "opaque_struct_singleton" => {
            // a type known only by name: no fields, just the singleton and an impl function
            s.singleton = Some(c.addr as i128);
            s.fields = vec![];
            s.align = None;
        }
        "enum_singleton" => e.singleton = Some(c.addr as i128),
        _ => {}
    }
    items.push(Item::Type(s));
    items.push(Item::Enum(e));
    let ety = match c.ety {
        0 => MTy::b("u32"),
        1 => MTy::b("u8").mptr(),
        2 => MTy::b("u16").arr(4),
        3 => MTy::user("S"),
        4 => MTy::user("S").cptr(),
        5 => MTy::user("E"),
        _ => MTy::b("u64"),
    };
    match c.kind {
        "extern_value" => items.push(Item::ExternValue { name: "gv".into(), public: c.public, ty: ety, address: Some(c.addr as i128) }),
        "extern_value_with_imports" => {
            items.insert(0, Item::Use("aaa".into()));
            items.insert(1, Item::Use("zzz".into()));
            items.push(Item::ExternValue { name: "gv".into(), public: c.public, ty: ety, address: Some(c.addr as i128) });
        }
        "extern_without_address" => items.push(Item::ExternValue { name: "gv".into(), public: c.public, ty: ety, address: None }),
        "extern_without_address_after_addressed" => {
            items.push(Item::ExternValue { name: "first".into(), public: true, ty: MTy::b("u32"), address: Some(c.addr as i128) });
            items.push(Item::ExternValue { name: "gv".into(), public: c.public, ty: ety, address: None });
            items.push(Item::ExternValue { name: "last".into(), public: true, ty: MTy::b("u32"), address: Some(c.addr as i128 + 0x10) });
        }
        _ => {}
    }
    if c.kind == "extern_value_only_module" {
        items = vec![Item::ExternValue { name: "gv".into(), public: c.public, ty: match c.ety { 0 => MTy::b("u32"), 1 => MTy::b("u8").mptr(), _ => MTy::b("u16").arr(4) }, address: Some(c.addr as i128) }];
    }
    let text = Printer { style: c.style, reverse_type_attrs: false, docs_after_attrs: false, attr_order: 0 }.module(&ModuleS::new("m").with(items));
    recontext(&text, c.ctx)
}

/// Rewrites the attribute line that carries `singleton(..)` / `address(..)`: 1 doc line before, 2 doc line
/// after, 3 doc lines on both sides, 4 one bracket per attribute, 5 the same in reverse order,
/// 6 reverse order inside one bracket; 7-10 (extern values) an ignored single-integer attribute (`align`, `size`,
/// `index`) in its own bracket before / after, or in the same bracket before / after.
fn recontext(text: &str, ctx: usize) -> String {
    if ctx == 0 {
        return text.to_string();
    }
    let mut out = String::new();
    for line in text.lines() {
        if line.starts_with("#[") && (line.contains("singleton(") || line.contains("address(")) {
            let inner = line.trim_start_matches("#[").trim_end_matches(']');
            let mut attrs: Vec<&str> = inner.split(", ").collect();
            match ctx {
                1 => out.push_str(&format!("/// where it lives\n{line}\n")),
                2 => out.push_str(&format!("{line}\n/// where it lives\n")),
                3 => out.push_str(&format!("/// first\n///\n/// second\n{line}\n/// third\n")),
                7 => out.push_str(&format!("#[align(16)]\n{line}\n")),
                8 => out.push_str(&format!("{line}\n#[align(16)]\n")),
                9 => out.push_str(&format!("#[size(64), {inner}]\n")),
                10 => out.push_str(&format!("#[{inner}, index(2)]\n")),
                4 | 5 => {
                    if ctx == 5 {
                        attrs.reverse();
                    }
                    for a in attrs {
                        out.push_str(&format!("#[{a}]\n"));
                    }
                }
                _ => {
                    attrs.reverse();
                    out.push_str(&format!("#[{}]\n", attrs.join(", ")));
                }
            }
        } else {
            out.push_str(line);
            out.push('\n');
        }
    }
    out
}

fn driver(c: &Case) -> String {
    let mut s = String::from("\n#[allow(warnings)]\npub mod __verif_exec {\n    use super::*;\n    pub unsafe fn run() {\n");
    driver_part(&mut s, c.kind, c.ety, c.addr, "");
    s.push_str("    }\n}\n");
    s
}

/// statements that exercise one accessor; `sfx` selects `S{sfx}` / `E{sfx}` / `get_gv{sfx}` and suffixes the labels
fn driver_part(s: &mut String, kind: &str, ety: usize, a: u64, sfx: &str) {
    match kind {
        "struct_singleton" | "opaque_struct_singleton" => {
            s.push_str(&format!("        crate::rt::map_data({a:#x}, 16);\n        let mut o1: S{sfx} = core::mem::zeroed();\n        let mut o2: S{sfx} = core::mem::zeroed();\n"));
            s.push_str(&format!("        *({a:#x}usize as *mut u64) = 0;\n        crate::rt::begin(\"null{sfx}\");\n        let r = S{sfx}::get();\n        crate::rt::end(r.is_none() as u64, &[]);\n"));
            for o in ["o1", "o2"] {
                s.push_str(&format!("        *({a:#x}usize as *mut *mut S{sfx}) = core::ptr::addr_of_mut!({o});\n        crate::rt::begin(\"{o}{sfx}\");\n        let r: Option<&'static mut S{sfx}> = S{sfx}::get();\n        crate::rt::end(r.map(|x| x as *mut S{sfx} as u64).unwrap_or(0), &[core::ptr::addr_of!({o}) as u64]);\n"));
            }
        }
        "enum_singleton" => {
            s.push_str(&format!("        crate::rt::map_data({a:#x}, 16);\n"));
            for v in ["A", "B", "C"] {
                s.push_str(&format!("        *({a:#x}usize as *mut E{sfx}) = E{sfx}::{v};\n        crate::rt::begin(\"{v}{sfx}\");\n        let r: E{sfx} = E{sfx}::get();\n        crate::rt::end(r as u64, &[E{sfx}::{v} as u64]);\n"));
            }
        }
        _ => {
            let rust_ty = ETYS[ety].0.replace("S", "crate::m::S").replace("E", "crate::m::E");
            s.push_str(&format!("        crate::rt::map_data({a:#x}, 64);\n        crate::rt::begin(\"addr{sfx}\");\n        let r: &'static mut {rust_ty} = get_gv{sfx}();\n        crate::rt::end(r as *mut {rust_ty} as u64, &[core::mem::size_of::<{rust_ty}>() as u64]);\n"));
        }
    }
}

/// integer literals of an accessor body that are not part of the accessed type (`[u16; 4]`)
fn literals(body: &str, ety_rust: &str) -> Vec<u64> {
    let mut in_type = synx::int_literals(ety_rust);
    let mut out = vec![];
    for v in synx::int_literals(body) {
        if let Some(p) = in_type.iter().position(|t| *t == v) {
            in_type.remove(p);
        } else {
            out.push(v as u64);
        }
    }
    out
}

fn judge_text(c: &Case, text: &str) -> Option<(String, String)> {
    let fi = match synx::file_info(text) {
        Ok(f) => f,
        Err(e) => return Some(("output_unreadable".into(), e)),
    };
    judge_acc(&fi, text, c.kind, c.ety, c.addr, c.public, "")
}

/// one accessor: `S{sfx}::get`, `E{sfx}::get` or `get_gv{sfx}`
fn judge_acc(fi: &synx::FileInfo, text: &str, kind: &str, ety: usize, addr: u64, public: bool, sfx: &str) -> Option<(String, String)> {
    let (f, want_out) = match kind {
        "struct_singleton" | "opaque_struct_singleton" => (fi.method(&format!("S{sfx}"), "get"), "Option<&'static mut Self>".to_string()),
        "enum_singleton" => (fi.method(&format!("E{sfx}"), "get"), "Self".to_string()),
        _ => (fi.fns.iter().find(|f| f.name == format!("get_gv{sfx}")), format!("&'static mut {}", ETYS[ety].1)),
    };
    let Some(f) = f else {
        return Some(("accessor_missing".into(), format!("{kind}{sfx}\n{text}")));
    };
    let norm = |s: &str| s.replace(' ', "");
    if f.output.as_deref().map(norm) != Some(norm(&want_out)) {
        return Some(("accessor_type_differs".into(), format!("expected `{want_out}`, emitted {:?}", f.output)));
    }
    if f.public != public {
        return Some(("accessor_visibility_differs".into(), format!("declared pub={public}, emitted pub={}", f.public)));
    }
    // the only number in the accessor (apart from array lengths of the accessed type) is the address,
    // however it is spelled; the level of indirection is judged by executing the accessor (width 8) and
    // by comparing the two widths' accessor bodies, which have no reason to differ
    let lits = literals(&f.body, if kind.ends_with("singleton") { "" } else { ETYS[ety].1 });
    if lits != vec![addr] {
        return Some(("accessor_address_literal_differs".into(), format!("{kind}{sfx}: declared {addr:#x}, literals in the accessor body: {lits:x?}\n{}", f.body)));
    }
    None
}

/// the accessor bodies of a module, for the comparison across pointer widths
fn accessor_bodies(text: &str) -> Vec<(String, String)> {
    let Ok(fi) = synx::file_info(text) else { return vec![] };
    let mut out = vec![];
    for ty in ["S", "E", "S2", "E2"] {
        if let Some(f) = fi.method(ty, "get") {
            out.push((format!("{ty}::get"), f.body.clone()));
        }
    }
    for f in fi.fns.iter().filter(|f| f.name.starts_with("get_")) {
        out.push((f.name.clone(), f.body.clone()));
    }
    out
}

fn judge_exec(c: &Case, recs: &[Record]) -> Option<(String, String)> {
    judge_exec_part(c.kind, c.addr, "", recs)
}

fn judge_exec_part(kind: &str, addr: u64, sfx: &str, recs: &[Record]) -> Option<(String, String)> {
    let find = |l: &str| recs.iter().find(|r| r.label == format!("{l}{sfx}"));
    let missing = |l: &str| Some(("accessor_run_incomplete".to_string(), format!("no record labelled {l}{sfx}")));
    match kind {
        "struct_singleton" | "opaque_struct_singleton" => {
            let Some(n) = find("null") else { return missing("null") };
            if n.ret != 1 {
                return Some(("null_singleton_not_none".into(), "get() returned Some for a null pointer".into()));
            }
            for o in ["o1", "o2"] {
                let Some(r) = find(o) else { return missing(o) };
                if r.ret != r.extra[0] {
                    return Some(("singleton_points_elsewhere".into(), format!("{o}{sfx}: get() returned {:#x}, the planted object is at {:#x}", r.ret, r.extra[0])));
                }
            }
            None
        }
        "enum_singleton" => {
            for v in ["A", "B", "C"] {
                let Some(r) = find(v) else { return missing(v) };
                if r.ret != r.extra[0] {
                    return Some(("enum_singleton_value_differs".into(), format!("{v}{sfx}: get() returned {:#x}, stored {:#x}", r.ret, r.extra[0])));
                }
            }
            None
        }
        _ => {
            let Some(r) = find("addr") else { return missing("addr") };
            if r.ret != addr {
                return Some(("extern_value_address_differs".into(), format!("get_gv{sfx}() refers to {:#x}, declared {addr:#x}", r.ret)));
            }
            None
        }
    }
}

// ---- thorough: two accessors in one module ------------------------------------------------

/// (kind, extern value type selector)
const MENU: &[(&str, usize)] = &[
    ("struct_singleton", 0),
    ("opaque_struct_singleton", 0),
    ("enum_singleton", 0),
    ("extern_value", 0),
    ("extern_value", 1),
    ("extern_value", 2),
    ("extern_value", 3),
    ("extern_value", 4),
    ("extern_value", 5),
    ("extern_value", 6),
];

#[derive(Clone, Debug)]
struct Pair {
    a: usize,
    b: usize,
    addr_a: u64,
    addr_b: u64,
    pub_a: bool,
    pub_b: bool,
    /// declare the second accessor's items before the first one's
    swapped: bool,
}

fn pairs() -> Vec<Pair> {
    let (x, y) = (EXEC_ADDRS[0] + 0xA00, EXEC_ADDRS[2] + 0xA00);
    let mut out = vec![];
    for a in 0..MENU.len() {
        for b in 0..MENU.len() {
            for (addr_a, addr_b) in [(x, y), (y, x), (x, x), (x, x + 8)] {
                for (pub_a, pub_b) in [(true, true), (true, false), (false, true)] {
                    for swapped in [false, true] {
                        out.push(Pair { a, b, addr_a, addr_b, pub_a, pub_b, swapped });
                    }
                }
            }
        }
    }
    out
}

fn pair_items(kind: &str, ety: usize, addr: u64, public: bool, sfx: &str) -> Vec<Item> {
    let mut s = TypeS::new(&format!("S{sfx}"));
    s.fields = vec![FieldS::new("a", MTy::b("u64")), FieldS::new("b", MTy::b("u32")), FieldS::new("c", MTy::b("u32"))];
    s.align = Some(8);
    s.public = public;
    let mut e = EnumS::new(&format!("E{sfx}"), "u32");
    e.public = public;
    e.copyable = public;
    e.variants = vec![
        VariantS { name: "A".into(), value: None, default: false, doc: vec![] },
        VariantS { name: "B".into(), value: Some(7), default: false, doc: vec![] },
        VariantS { name: "C".into(), value: Some(0x7fff_ffff), default: false, doc: vec![] },
    ];
    let mut items = vec![];
    match kind {
        "struct_singleton" => s.singleton = Some(addr as i128),
        "opaque_struct_singleton" => {
            s.singleton = Some(addr as i128);
            s.fields = vec![];
            s.align = None;
        }
        "enum_singleton" => e.singleton = Some(addr as i128),
        _ => {}
    }
    items.push(Item::Type(s));
    items.push(Item::Enum(e));
    if kind == "extern_value" {
        let t = match ety {
            0 => MTy::b("u32"),
            1 => MTy::b("u8").mptr(),
            2 => MTy::b("u16").arr(4),
            3 => MTy::user("S"),
            4 => MTy::user("S").cptr(),
            5 => MTy::user("E"),
            _ => MTy::b("u64"),
        };
        items.push(Item::ExternValue { name: format!("gv{sfx}"), public, ty: t, address: Some(addr as i128) });
    }
    items
}

fn pair_module(p: &Pair) -> String {
    let first = pair_items(MENU[p.a].0, MENU[p.a].1, p.addr_a, p.pub_a, "");
    let second = pair_items(MENU[p.b].0, MENU[p.b].1, p.addr_b, p.pub_b, "2");
    let items: Vec<Item> = if p.swapped { second.into_iter().chain(first).collect() } else { first.into_iter().chain(second).collect() };
    Printer { style: NumStyle::Hex, reverse_type_attrs: false, docs_after_attrs: false, attr_order: 0 }.module(&ModuleS::new("m").with(items))
}

fn run_pairs(rep: &mut Report, only_i: Option<usize>) {
    let all = pairs();
    let idxs: Vec<usize> = match only_i {
        Some(i) => vec![i],
        None => (0..all.len()).collect(),
    };
    let mut xcases = vec![];
    let mut xown = vec![];
    let mut bodies4: BTreeMap<usize, Vec<(String, String)>> = BTreeMap::new();
    for ps in [4usize, 8] {
        for &i in &idxs {
            let p = &all[i];
            let input = pipe::Input::single(pair_module(p));
            let v = pipe::run(&input, ps);
            rep.states += 1;
            rep.traces += 1;
            rep.evaluations += 1;
            rep.transitions += 2;
            rep.distinct_str(&format!("pair{}:{}:{:#x}:{:#x}", p.a, p.b, p.addr_a, p.addr_b));
            let viol = match &v {
                pipe::Verdict::Panic(m) => Some(("panic".to_string(), m.clone())),
                pipe::Verdict::Ok(b) if !b.files.contains_key("m.rs") => Some(("no_output_file_for_the_module".to_string(), format!("files: {:?}", b.files.keys().collect::<Vec<_>>()))),
                pipe::Verdict::Ok(b) => {
                    let text = &b.files["m.rs"];
                    let mut r = match synx::file_info(text) {
                        Err(e) => Some(("output_unreadable".to_string(), e)),
                        Ok(fi) => judge_acc(&fi, text, MENU[p.a].0, MENU[p.a].1, p.addr_a, p.pub_a, "").or_else(|| judge_acc(&fi, text, MENU[p.b].0, MENU[p.b].1, p.addr_b, p.pub_b, "2")),
                    };
                    let bodies = accessor_bodies(text);
                    if ps == 4 {
                        bodies4.insert(i, bodies);
                    } else if let Some(b4) = bodies4.get(&i) {
                        if r.is_none() && *b4 != bodies {
                            r = Some(("accessor_differs_between_pointer_widths".to_string(), format!("width 4: {b4:?}\nwidth 8: {bodies:?}")));
                        }
                    }
                    if r.is_none() && ps == 8 {
                        let mut files = b.files.clone();
                        let mut d = String::from("\n#[allow(warnings)]\npub mod __verif_exec {\n    use super::*;\n    pub unsafe fn run() {\n");
                        // the second accessor first, so that a shared location would be seen by the first one's checks
                        d.push_str("        {\n");
                        driver_part(&mut d, MENU[p.b].0, MENU[p.b].1, p.addr_b, "2");
                        d.push_str("        }\n        {\n");
                        driver_part(&mut d, MENU[p.a].0, MENU[p.a].1, p.addr_a, "");
                        d.push_str("        }\n    }\n}\n");
                        files.get_mut("m.rs").unwrap().push_str(&d);
                        xcases.push(RCase::new(files));
                        xown.push(i);
                    }
                    r
                }
                other => Some(("valid_input_rejected".to_string(), other.err_text())),
            };
            if let Some((key, detail)) = viol {
                rep.violation(Violation { key, features: vec![format!("kind:pair:{}+{}", MENU[p.a].0, MENU[p.b].0)], input, ps, detail, locator: json!({"space": "pairs", "index": i, "ps": ps}) });
            } else if i % 301 == 0 {
                rep.sample(json!({"ps": ps, "input": input.render(), "verdict": v.class()}));
            }
        }
    }
    match run_cases(&xcases, "m::__verif_exec::run", 20) {
        Err(e) => rep.machinery(format!("{e:#}")),
        Ok(results) => {
            for (k, r) in results.iter().enumerate() {
                let i = xown[k];
                let p = &all[i];
                let viol = if !r.compile.is_empty() {
                    Some((format!("driver_does_not_compile:{}", r.compile[0].code), r.compile.iter().map(|d| d.rendered.clone()).collect::<Vec<_>>().join("\n")))
                } else if let Some(cr) = &r.crashed {
                    Some(("accessor_crashed".to_string(), format!("the runner died while executing this case: {cr}")))
                } else {
                    rep.count("accessor_pairs_executed", 1);
                    judge_exec_part(MENU[p.a].0, p.addr_a, "", &r.records).or_else(|| judge_exec_part(MENU[p.b].0, p.addr_b, "2", &r.records))
                };
                if let Some((key, detail)) = viol {
                    rep.violation(Violation { key, features: vec![format!("kind:pair:{}+{}", MENU[p.a].0, MENU[p.b].0)], input: pipe::Input::single(pair_module(p)), ps: 8, detail, locator: json!({"space": "pairs", "index": i, "ps": 8}) });
                }
            }
        }
    }
}

pub fn run(tier: &str, only: Option<&Value>) -> i32 {
    let mut rep = Report::new("C15", tier);
    let all = cases();
    rep.rule = "E1: #[singleton(A)] on a type and on an enum, and `extern gv: T` with #[address(A)] for T in {u32, *mut u8, [u16; 4], a user struct, pointer to it, an enum, u64}, A over five mappable absolute addresses and four unmappable ones (text only), in decimal / hex / underscore spelling, public and private; the attribute carrying the address preceded / followed by doc lines, in its own bracket, before and after the item's other attributes; for extern values also with another single-integer attribute (align / size / index, which extern values ignore) before and after it, in its own bracket and in the same one; extern values without address must be rejected; extern values of types imported by name and through a module, under every order in which the modules are added. Oracle X: the data page is mapped at A on the host; struct singleton: null -> None, pointer to object 1 / 2 -> exactly that object; enum singleton: each variant stored at A is returned; extern value: the returned reference is at A. Oracle S: accessor type, visibility, the address as the accessor's only integer literal (by value, however spelled), accessor bodies identical at both widths (the indirection level itself is decided by executing them). distinct = distinct (kind, address, spelling, type)".into();
    let only_i = only.map(|l| l["index"].as_u64().unwrap_or(0) as usize);
    let only_space = only.map(|l| l["space"].as_str().unwrap_or("accessors").to_string());
    if tier == "thorough" && only.is_none() || only_space.as_deref() == Some("pairs") {
        rep.rule.push_str(". Thorough adds E1 over every ordered pair of accessor declarations in one module (10 x 10 kinds, second set of types S2 / E2 / gv2, addresses (x,y) (y,x) (x,x) (x,x+8), three visibility combinations, both declaration orders), each accessor judged by S and both executed in one process (X)");
        run_pairs(&mut rep, if only_space.as_deref() == Some("pairs") { only_i } else { None });
    }
    let idxs: Vec<usize> = match (only_i, only_space.as_deref()) {
        (_, Some("pairs")) => vec![],
        (Some(i), _) => vec![i],
        (None, _) => (0..all.len()).collect(),
    };
    let mut xcases = vec![];
    let mut xown = vec![];
    let mut inputs: BTreeMap<usize, pipe::Input> = BTreeMap::new();
    let mut bodies4: BTreeMap<usize, Vec<(String, String)>> = BTreeMap::new();
    for ps in [4usize, 8] {
        for &i in &idxs {
            let c = &all[i];
            let mut input = pipe::Input::single(module_of(c));
            if c.kind == "extern_value_with_imports" {
                let other = "pub type S {\n    pub q: u8,\n}\npub enum E: u8 {\n    Z,\n}\n".to_string();
                input.modules.insert(0, ("aaa".into(), other.clone()));
                input.modules.push(("zzz".into(), other));
            }
            let v = pipe::run(&input, ps);
            rep.states += 1;
            rep.traces += 1;
            rep.evaluations += 1;
            rep.transitions += 1;
            rep.distinct_str(&format!("{}{:#x}{:?}{}ctx{}", c.kind, c.addr, c.style, c.ety, c.ctx));
            let viol = match (&v, c.kind) {
                (pipe::Verdict::Panic(p), _) => Some(("panic".to_string(), p.clone())),
                (pipe::Verdict::Ok(b), "extern_without_address" | "extern_without_address_after_addressed") => Some(("extern_value_without_address_accepted".to_string(), b.files["m.rs"].clone())),
                (_, "extern_without_address" | "extern_without_address_after_addressed") => {
                    rep.count("rejected_as_required", 1);
                    None
                }
                (pipe::Verdict::Err(_), _) if ps == 4 && c.addr >> 32 != 0 => {
                    rep.count("rejected_address_beyond_pointer_width", 1);
                    None
                }
                // the upper half of the 64-bit range is not representable in the language's integers: it may be
                // refused (at parse time or later); if it is accepted, the accessor must still address exactly it
                (pipe::Verdict::Err(_) | pipe::Verdict::ParseErr(..), _) if c.addr >> 63 != 0 => {
                    rep.count("rejected_address_beyond_isize", 1);
                    None
                }
                (pipe::Verdict::Ok(b), _) if !b.files.contains_key("m.rs") => Some(("no_output_file_for_the_module".to_string(), format!("files: {:?}", b.files.keys().collect::<Vec<_>>()))),
                (pipe::Verdict::Ok(b), _) => {
                    let mut r = judge_text(c, &b.files["m.rs"]);
                    let bodies = accessor_bodies(&b.files["m.rs"]);
                    if ps == 4 {
                        bodies4.insert(i, bodies);
                    } else if let Some(b4) = bodies4.get(&i) {
                        if r.is_none() && *b4 != bodies {
                            r = Some(("accessor_differs_between_pointer_widths".to_string(), format!("width 4: {b4:?}\nwidth 8: {bodies:?}")));
                        }
                    }
                    if r.is_none() && c.exec && ps == 8 {
                        let mut files = b.files.clone();
                        files.get_mut("m.rs").unwrap().push_str(&driver(c));
                        xcases.push(RCase::new(files));
                        xown.push(i);
                        inputs.insert(i, input.clone());
                    }
                    r
                }
                (other, _) => Some(("valid_input_rejected".to_string(), other.err_text())),
            };
            if let Some((key, detail)) = viol {
                rep.violation(Violation { key, features: vec![format!("kind:{}", c.kind)], input, ps, detail, locator: json!({"space": "accessors", "index": i, "ps": ps}) });
            } else if i % 37 == 0 {
                rep.sample(json!({"ps": ps, "input": input.render(), "verdict": v.class()}));
            }
        }
    }
    // extern values whose types come from imports, under every order in which the modules are added: the
    // accessor's type is the one the scoping rules select (by-name import first), whatever was known when
    if only.is_none() {
        let provider = |n: usize| format!("pub type S {{\n    pub q: [u32; {n}],\n}}\npub enum E: u8 {{\n    Z,\n}}\n");
        let m = "use zzz::S;\nuse aaa;\nuse zzz::E;\n#[address(0x10900)]\npub extern gv: S;\n#[address(0x10A00)]\npub extern gp: *const S;\n#[address(0x10B00)]\npub extern ge: E;\n".to_string();
        let mods = vec![("aaa".to_string(), provider(1)), ("m".to_string(), m), ("zzz".to_string(), provider(4))];
        for ps in [4usize, 8] {
            for order in crate::util::permutations(3) {
                let input = pipe::Input { modules: order.iter().map(|&k| mods[k].clone()).collect() };
                let v = pipe::run(&input, ps);
                rep.states += 1;
                rep.traces += 1;
                rep.evaluations += 1;
                rep.transitions += 3;
                rep.distinct_str(&format!("imports{order:?}"));
                let viol = match &v {
                    pipe::Verdict::Panic(p) => Some(("panic".to_string(), p.clone())),
                    pipe::Verdict::Ok(b) => match b.files.get("m.rs").map(|t| synx::file_info(t)) {
                        Some(Ok(fi)) => {
                            let norm = |s: &str| s.replace(' ', "");
                            [("get_gv", "&'static mut crate::zzz::S"), ("get_gp", "&'static mut *const crate::zzz::S"), ("get_ge", "&'static mut crate::zzz::E")].iter().find_map(|(name, want)| {
                                let got = fi.fns.iter().find(|f| f.name == *name).and_then(|f| f.output.clone());
                                (got.as_deref().map(norm) != Some(norm(want))).then(|| ("accessor_type_differs".to_string(), format!("{name}: expected `{want}`, emitted {got:?} (modules added in the order {:?})", order.iter().map(|&k| mods[k].0.as_str()).collect::<Vec<_>>())))
                            })
                        }
                        Some(Err(e)) => Some(("output_unreadable".to_string(), e)),
                        None => Some(("no_output_file_for_the_module".to_string(), format!("files: {:?}", b.files.keys().collect::<Vec<_>>()))),
                    },
                    other => Some(("valid_input_rejected".to_string(), other.err_text())),
                };
                if let Some((key, detail)) = viol {
                    rep.violation(Violation { key, features: vec!["kind:extern_values_of_imported_types".into()], input, ps, detail, locator: json!({"space": "imports", "ps": ps}) });
                }
            }
        }
    }
    match run_cases(&xcases, "m::__verif_exec::run", 20) {
        Err(e) => rep.machinery(format!("{e:#}")),
        Ok(results) => {
            for (k, r) in results.iter().enumerate() {
                let i = xown[k];
                let c = &all[i];
                let viol = if !r.compile.is_empty() {
                    Some((format!("driver_does_not_compile:{}", r.compile[0].code), r.compile.iter().map(|d| d.rendered.clone()).collect::<Vec<_>>().join("\n")))
                } else if let Some(cr) = &r.crashed {
                    Some(("accessor_crashed".to_string(), format!("the runner died while executing this case: {cr}")))
                } else {
                    rep.count("accessors_executed", 1);
                    judge_exec(c, &r.records)
                };
                if let Some((key, detail)) = viol {
                    rep.violation(Violation { key, features: vec![format!("kind:{}", c.kind)], input: inputs[&i].clone(), ps: 8, detail, locator: json!({"space": "accessors", "index": i, "ps": 8}) });
                }
            }
        }
    }
    if only.is_some() {
        for v in &rep.violations {
            println!("{}\n{}: {}", v.input.render(), v.key, v.detail);
        }
        let failed = !rep.violations.is_empty() || !rep.machinery_errors.is_empty();
        println!("replay: {}", if failed { "still failing" } else { "passes" });
        return failed as i32;
    }
    rep.finish()
}
