//! C15 — singleton and extern-value accessors address the declared location.
//! E1 over singleton / extern-value declarations; oracles X (execution with data pages mapped
//! at the declared absolute addresses) and S (address literal in the accessor).

use std::collections::BTreeMap;

use serde_json::{json, Value};

use crate::{checks::c05::EXEC_ADDRS, exec_oracle::*, pipe, report::*, rustc_oracle::RCase, spec::*, synx};

const TEXT_ONLY: &[u64] = &[0, 8, 0x123, 0x7FFF_FFFF_FFFF_FFF0];

#[derive(Clone, Debug)]
struct Case {
    kind: &'static str, // struct_singleton | enum_singleton | extern_value | extern_without_address
    addr: u64,
    style: NumStyle,
    ety: usize, // extern value type selector
    exec: bool,
    public: bool,
}

const ETYS: &[(&str, &str)] = &[("u32", "u32"), ("*mut u8", "*mut u8"), ("[u16; 4]", "[u16;4]"), ("S", "crate::m::S"), ("*const S", "*const crate::m::S"), ("E", "crate::m::E"), ("u64", "u64")];

fn cases() -> Vec<Case> {
    let mut out = vec![];
    let styles = [NumStyle::Dec, NumStyle::Hex, NumStyle::Under];
    let mut k = 0;
    for (exec, addrs) in [(true, EXEC_ADDRS), (false, TEXT_ONLY)] {
        for a in addrs {
            for st in styles {
                for kind in ["struct_singleton", "opaque_struct_singleton", "enum_singleton"] {
                    k += 1;
                    out.push(Case { kind, addr: *a + 0x800 * exec as u64, style: st, ety: 0, exec, public: k % 2 == 0 });
                }
                for ety in 0..ETYS.len() {
                    k += 1;
                    out.push(Case { kind: "extern_value", addr: *a + 0x900 * exec as u64, style: st, ety, exec, public: k % 2 == 0 });
                }
            }
        }
    }
    // a module that holds nothing but extern values
    for ety in [0usize, 1, 2] {
        out.push(Case { kind: "extern_value_only_module", addr: EXEC_ADDRS[1] + 0x900, style: NumStyle::Hex, ety, exec: true, public: true });
    }
    // the value's type is also defined by imported modules that sort before / after the module
    for ety in [3usize, 4, 5] {
        out.push(Case { kind: "extern_value_with_imports", addr: 0x10900, style: NumStyle::Hex, ety, exec: false, public: true });
    }
    for ety in 0..ETYS.len() {
        out.push(Case { kind: "extern_without_address", addr: 0, style: NumStyle::Dec, ety, exec: false, public: true });
        // ... also when another extern value before it does have one
        out.push(Case { kind: "extern_without_address_after_addressed", addr: 0x10900, style: NumStyle::Hex, ety, exec: false, public: true });
    }
    out
}

fn module_of(c: &Case) -> String {
    let mut s = TypeS::new("S");
    s.fields = vec![FieldS::new("a", MTy::b("u64")), FieldS::new("b", MTy::b("u32")), FieldS::new("c", MTy::b("u32"))];
    s.public = c.public;
    s.align = Some(8);
    let mut e = EnumS::new("E", "u32");
    e.public = c.public;
    // with and without Copy: the accessor returns the enum by value either way
    e.copyable = c.public;
    e.variants = vec![
        VariantS { name: "A".into(), value: None, default: false, doc: vec![] },
        VariantS { name: "B".into(), value: Some(7), default: false, doc: vec![] },
        VariantS { name: "C".into(), value: Some(0x7fff_ffff), default: false, doc: vec![] },
    ];
    let mut items = vec![];
    match c.kind {
        "struct_singleton" => s.singleton = Some(c.addr as i128),
        "opaque_struct_singleton" => {
            // a type known only by name: no fields, just the singleton and an impl function
            s.singleton = Some(c.addr as i128);
            s.fields = vec![];
            s.align = None;
        }
        "enum_singleton" => e.singleton = Some(c.addr as i128),
        _ => {}
    }
    items.push(Item::Type(s));
    items.push(Item::Enum(e));
    let ety = match c.ety {
        0 => MTy::b("u32"),
        1 => MTy::b("u8").mptr(),
        2 => MTy::b("u16").arr(4),
        3 => MTy::user("S"),
        4 => MTy::user("S").cptr(),
        5 => MTy::user("E"),
        _ => MTy::b("u64"),
    };
    match c.kind {
        "extern_value" => items.push(Item::ExternValue { name: "gv".into(), public: c.public, ty: ety, address: Some(c.addr as i128) }),
        "extern_value_with_imports" => {
            items.insert(0, Item::Use("aaa".into()));
            items.insert(1, Item::Use("zzz".into()));
            items.push(Item::ExternValue { name: "gv".into(), public: c.public, ty: ety, address: Some(c.addr as i128) });
        }
        "extern_without_address" => items.push(Item::ExternValue { name: "gv".into(), public: c.public, ty: ety, address: None }),
        "extern_without_address_after_addressed" => {
            items.push(Item::ExternValue { name: "first".into(), public: true, ty: MTy::b("u32"), address: Some(c.addr as i128) });
            items.push(Item::ExternValue { name: "gv".into(), public: c.public, ty: ety, address: None });
            items.push(Item::ExternValue { name: "last".into(), public: true, ty: MTy::b("u32"), address: Some(c.addr as i128 + 0x10) });
        }
        _ => {}
    }
    if c.kind == "extern_value_only_module" {
        items = vec![Item::ExternValue { name: "gv".into(), public: c.public, ty: match c.ety { 0 => MTy::b("u32"), 1 => MTy::b("u8").mptr(), _ => MTy::b("u16").arr(4) }, address: Some(c.addr as i128) }];
    }
    Printer { style: c.style, reverse_type_attrs: false, docs_after_attrs: false }.module(&ModuleS::new("m").with(items))
}

fn driver(c: &Case) -> String {
    let a = c.addr;
    let mut s = String::from("\n#[allow(warnings)]\npub mod __verif_exec {\n    use super::*;\n    pub unsafe fn run() {\n");
    match c.kind {
        "struct_singleton" | "opaque_struct_singleton" => {
            s.push_str(&format!("        crate::rt::map_data({a:#x}, 16);\n        let mut o1: S = core::mem::zeroed();\n        let mut o2: S = core::mem::zeroed();\n"));
            s.push_str(&format!("        *({a:#x}usize as *mut u64) = 0;\n        crate::rt::begin(\"null\");\n        let r = S::get();\n        crate::rt::end(r.is_none() as u64, &[]);\n"));
            for o in ["o1", "o2"] {
                s.push_str(&format!("        *({a:#x}usize as *mut *mut S) = core::ptr::addr_of_mut!({o});\n        crate::rt::begin(\"{o}\");\n        let r: Option<&'static mut S> = S::get();\n        crate::rt::end(r.map(|x| x as *mut S as u64).unwrap_or(0), &[core::ptr::addr_of!({o}) as u64]);\n"));
            }
        }
        "enum_singleton" => {
            s.push_str(&format!("        crate::rt::map_data({a:#x}, 16);\n"));
            for v in ["A", "B", "C"] {
                s.push_str(&format!("        *({a:#x}usize as *mut E) = E::{v};\n        crate::rt::begin(\"{v}\");\n        let r: E = E::get();\n        crate::rt::end(r as u64, &[E::{v} as u64]);\n"));
            }
        }
        _ => {
            let rust_ty = ETYS[c.ety].0.replace("S", "crate::m::S").replace("E", "crate::m::E");
            s.push_str(&format!("        crate::rt::map_data({a:#x}, 64);\n        crate::rt::begin(\"addr\");\n        let r: &'static mut {rust_ty} = get_gv();\n        crate::rt::end(r as *mut {rust_ty} as u64, &[core::mem::size_of::<{rust_ty}>() as u64]);\n"));
        }
    }
    s.push_str("    }\n}\n");
    s
}

/// numeric literals (decimal or hex, optional integer suffix) in a normalised token string
fn literals(body: &str) -> Vec<u64> {
    let mut out = vec![];
    let b: Vec<char> = body.chars().collect();
    let mut i = 0;
    while i < b.len() {
        let prev_ident = i > 0 && (b[i - 1].is_alphanumeric() || b[i - 1] == '_');
        if b[i].is_ascii_digit() && !prev_ident {
            let mut j = i;
            while j < b.len() && (b[j].is_alphanumeric() || b[j] == '_') {
                j += 1;
            }
            let tok: String = b[i..j].iter().collect::<String>().replace('_', "");
            let tok = tok.trim_end_matches("usize").trim_end_matches("u64").trim_end_matches("isize");
            let v = if let Some(h) = tok.strip_prefix("0x") { u64::from_str_radix(h, 16).ok() } else { tok.parse().ok() };
            // only literals that are cast to a pointer are addresses (`[u16; 4]` is not)
            let rest: String = b[j..].iter().take(4).collect();
            if let (Some(v), true) = (v, rest.starts_with(" as*")) {
                out.push(v);
            }
            i = j;
        } else {
            i += 1;
        }
    }
    out
}

fn judge_text(c: &Case, text: &str) -> Option<(String, String)> {
    let fi = match synx::file_info(text) {
        Ok(f) => f,
        Err(e) => return Some(("output_unreadable".into(), e)),
    };
    let (f, want_out) = match c.kind {
        "struct_singleton" | "opaque_struct_singleton" => (fi.method("S", "get"), "Option<&'static mut Self>".to_string()),
        "enum_singleton" => (fi.method("E", "get"), "Self".to_string()),
        _ => (fi.fns.iter().find(|f| f.name == "get_gv"), format!("&'static mut {}", ETYS[c.ety].1)),
    };
    let Some(f) = f else {
        return Some(("accessor_missing".into(), format!("{}\n{text}", c.kind)));
    };
    let norm = |s: &str| s.replace(' ', "");
    if f.output.as_deref().map(norm) != Some(norm(&want_out)) {
        return Some(("accessor_type_differs".into(), format!("expected `{want_out}`, emitted {:?}", f.output)));
    }
    if f.public != c.public {
        return Some(("accessor_visibility_differs".into(), format!("declared pub={}, emitted pub={}", c.public, f.public)));
    }
    let lits = literals(&f.body);
    if lits != vec![c.addr] {
        return Some(("accessor_address_literal_differs".into(), format!("declared {:#x}, literals in the accessor body: {lits:x?}\n{}", c.addr, f.body)));
    }
    // struct singletons go through one indirection, enum singletons and extern values through none
    let derefs_ptr_to_ptr = f.body.contains("*mut*mut Self") || f.body.contains("*mut *mut Self");
    if c.kind.ends_with("struct_singleton") != derefs_ptr_to_ptr {
        return Some(("accessor_indirection_differs".into(), f.body.clone()));
    }
    None
}

fn judge_exec(c: &Case, recs: &[Record]) -> Option<(String, String)> {
    match c.kind {
        "struct_singleton" | "opaque_struct_singleton" => {
            let n = recs.iter().find(|r| r.label == "null")?;
            if n.ret != 1 {
                return Some(("null_singleton_not_none".into(), "get() returned Some for a null pointer".into()));
            }
            for o in ["o1", "o2"] {
                let r = recs.iter().find(|r| r.label == o)?;
                if r.ret != r.extra[0] {
                    return Some(("singleton_points_elsewhere".into(), format!("{o}: get() returned {:#x}, the planted object is at {:#x}", r.ret, r.extra[0])));
                }
            }
            None
        }
        "enum_singleton" => {
            for v in ["A", "B", "C"] {
                let r = recs.iter().find(|r| r.label == v)?;
                if r.ret != r.extra[0] {
                    return Some(("enum_singleton_value_differs".into(), format!("{v}: get() returned {:#x}, stored {:#x}", r.ret, r.extra[0])));
                }
            }
            None
        }
        _ => {
            let r = recs.iter().find(|r| r.label == "addr")?;
            if r.ret != c.addr {
                return Some(("extern_value_address_differs".into(), format!("get_gv() refers to {:#x}, declared {:#x}", r.ret, c.addr)));
            }
            None
        }
    }
}

pub fn run(tier: &str, only: Option<&Value>) -> i32 {
    let mut rep = Report::new("C15", tier);
    let all = cases();
    rep.rule = "E1: #[singleton(A)] on a type and on an enum, and `extern gv: T` with #[address(A)] for T in {u32, *mut u8, [u16; 4], a user struct, pointer to it, an enum, u64}, A over five mappable absolute addresses and four unmappable ones (text only), in decimal / hex / underscore spelling, public and private; extern values without address must be rejected. Oracle X: the data page is mapped at A on the host; struct singleton: null -> None, pointer to object 1 / 2 -> exactly that object; enum singleton: each variant stored at A is returned; extern value: the returned reference is at A. Oracle S: accessor type, visibility, single address literal, level of indirection. distinct = distinct (kind, address, spelling, type)".into();
    let only_i = only.map(|l| l["index"].as_u64().unwrap_or(0) as usize);
    let idxs: Vec<usize> = match only_i {
        Some(i) => vec![i],
        None => (0..all.len()).collect(),
    };
    let mut xcases = vec![];
    let mut xown = vec![];
    let mut inputs: BTreeMap<usize, pipe::Input> = BTreeMap::new();
    for ps in [4usize, 8] {
        for &i in &idxs {
            let c = &all[i];
            let mut input = pipe::Input::single(module_of(c));
            if c.kind == "extern_value_with_imports" {
                let other = "pub type S {\n    pub q: u8,\n}\npub enum E: u8 {\n    Z,\n}\n".to_string();
                input.modules.insert(0, ("aaa".into(), other.clone()));
                input.modules.push(("zzz".into(), other));
            }
            let v = pipe::run(&input, ps);
            rep.states += 1;
            rep.traces += 1;
            rep.evaluations += 1;
            rep.transitions += 1;
            rep.distinct_str(&format!("{}{:#x}{:?}{}", c.kind, c.addr, c.style, c.ety));
            let viol = match (&v, c.kind) {
                (pipe::Verdict::Panic(p), _) => Some(("panic".to_string(), p.clone())),
                (pipe::Verdict::Ok(b), "extern_without_address" | "extern_without_address_after_addressed") => Some(("extern_value_without_address_accepted".to_string(), b.files["m.rs"].clone())),
                (_, "extern_without_address" | "extern_without_address_after_addressed") => {
                    rep.count("rejected_as_required", 1);
                    None
                }
                (pipe::Verdict::Err(_), _) if ps == 4 && c.addr >> 32 != 0 => {
                    rep.count("rejected_address_beyond_pointer_width", 1);
                    None
                }
                (pipe::Verdict::Ok(b), _) if !b.files.contains_key("m.rs") => Some(("no_output_file_for_the_module".to_string(), format!("files: {:?}", b.files.keys().collect::<Vec<_>>()))),
                (pipe::Verdict::Ok(b), _) => {
                    let r = judge_text(c, &b.files["m.rs"]);
                    if r.is_none() && c.exec && ps == 8 {
                        let mut files = b.files.clone();
                        files.get_mut("m.rs").unwrap().push_str(&driver(c));
                        xcases.push(RCase::new(files));
                        xown.push(i);
                        inputs.insert(i, input.clone());
                    }
                    r
                }
                (other, _) => Some(("valid_input_rejected".to_string(), other.err_text())),
            };
            if let Some((key, detail)) = viol {
                rep.violation(Violation { key, features: vec![format!("kind:{}", c.kind)], input, ps, detail, locator: json!({"space": "accessors", "index": i, "ps": ps}) });
            } else if i % 37 == 0 {
                rep.sample(json!({"ps": ps, "input": input.render(), "verdict": v.class()}));
            }
        }
    }
    match run_cases(&xcases, "m::__verif_exec::run", 20) {
        Err(e) => rep.machinery(format!("{e:#}")),
        Ok(results) => {
            for (k, r) in results.iter().enumerate() {
                let i = xown[k];
                let c = &all[i];
                let viol = if !r.compile.is_empty() {
                    Some((format!("driver_does_not_compile:{}", r.compile[0].code), r.compile.iter().map(|d| d.rendered.clone()).collect::<Vec<_>>().join("\n")))
                } else if let Some(cr) = &r.crashed {
                    Some(("accessor_crashed".to_string(), format!("the runner died while executing this case: {cr}")))
                } else {
                    rep.count("accessors_executed", 1);
                    judge_exec(c, &r.records)
                };
                if let Some((key, detail)) = viol {
                    rep.violation(Violation { key, features: vec![format!("kind:{}", c.kind)], input: inputs[&i].clone(), ps: 8, detail, locator: json!({"space": "accessors", "index": i, "ps": 8}) });
                }
            }
        }
    }
    if only.is_some() {
        for v in &rep.violations {
            println!("{}\n{}: {}", v.input.render(), v.key, v.detail);
        }
        let failed = !rep.violations.is_empty() || !rep.machinery_errors.is_empty();
        println!("replay: {}", if failed { "still failing" } else { "passes" });
        return failed as i32;
    }
    rep.finish()
}
