//! C01 (declared addresses are the real offsets) and C02 (resolved size/alignment equal the
//! compiler's) over the layout space with auxiliary definitions: E1 + oracle R.

use std::collections::BTreeMap;

use serde_json::{json, Value};

use crate::{model::*, pipe, report::*, rustc_oracle::*, spaces::*, spec::*, util};

/// The auxiliary definitions have the sizes the model's environment assumes.
const AUX_ASSERTS: &str = "const _: () = assert!(core::mem::size_of::<Inner4>() == 4 && core::mem::align_of::<Inner4>() == 4 && core::mem::size_of::<Inner16>() == 16 && core::mem::align_of::<Inner16>() == 8 && core::mem::size_of::<Ext12>() == 12 && core::mem::align_of::<Ext12>() == 4 && core::mem::size_of::<En16>() == 2 && core::mem::align_of::<En16>() == 2 && core::mem::size_of::<InnerV>() == 2 * core::mem::size_of::<usize>() && core::mem::align_of::<InnerV>() == core::mem::size_of::<usize>() && core::mem::size_of::<Empty8>() == 0 && core::mem::align_of::<Empty8>() == 8);\n";

/// number of descriptions explored (and whose accepted outputs are compiled) at a time
const CHUNK: usize = 2_000_000;

pub struct Accepted {
    pub index: usize,
    pub ps: usize,
    pub ty: TypeS,
    pub input: pipe::Input,
    pub built: pipe::Built,
}

/// Runs pyxis over the whole space at width `ps`; returns the accepted cases and counts.
pub fn explore(space: &LayoutSpace, ps: usize, rep: &mut Report, range: std::ops::Range<usize>) -> Vec<Accepted> {
    let idxs: Vec<usize> = range.collect();
    let outs = util::par_map(idxs.len(), |j, _| {
        let i = idxs[j];
        let case = space.get(i, ps as u64);
        let input = to_input(&space.modules_for(&case.ty));
        match pipe::run(&input, ps) {
            pipe::Verdict::Ok(b) => (Some(Accepted { index: i, ps, ty: case.ty, input, built: b }), None, case.k),
            pipe::Verdict::Panic(p) => (None, Some((input, p)), case.k),
            _ => (None, None, case.k),
        }
    });
    let mut acc = vec![];
    for (a, panic, k) in outs {
        rep.states += 1;
        rep.traces += 1;
        rep.evaluations += 1;
        if k > 0 {
            rep.transitions += 1;
        }
        if let Some((input, p)) = panic {
            rep.count("panics_seen_(reported_by_C12)", 1);
            let _ = (input, p);
        }
        match a {
            Some(a) => {
                rep.count(&format!("accepted_ps{ps}"), 1);
                acc.push(a);
            }
            None => rep.count(&format!("rejected_ps{ps}"), 1),
        }
    }
    acc
}

/// The type carries its own vftable pointer: it declares a block and its first #[base] field
/// (if any) is not the auxiliary type that already has a vftable.
pub fn owns_vfptr(t: &TypeS) -> bool {
    t.vft.is_some() && !t.fields.iter().find(|f| f.base).is_some_and(|f| f.ty == MTy::user("InnerV"))
}

fn rust_user(n: &str) -> String {
    if n == "T" { n.to_string() } else { format!("crate::aux::{n}") }
}

/// Text appended to the emitted module: the extern type, then the asserts in a child module.
fn appendix(asserts: &[(String, String)]) -> String {
    let mut s = String::new();
    s.push_str("\n// ---- appended by the verification harness ----\n");
    s.push_str("#[allow(unused_imports, dead_code)]\nmod __verif {\n    use super::*;\n");
    for (label, cond) in asserts {
        s.push_str(&format!("    const _: () = assert!({cond}, \"@@{label}@@\");\n"));
    }
    s.push_str("}\n");
    s
}

fn c01_asserts(a: &Accepted, env: &Env) -> Vec<(String, String)> {
    let lay = layout(&a.ty, a.ps as u64, env, owns_vfptr(&a.ty));
    let mut v = vec![];
    // Expected offsets straight from the description, whatever the model thinks of its
    // realisability: a written address is the offset; otherwise the field starts where the
    // previous declared field ends (after the vftable pointer for the first one).
    let mut end: i128 = if owns_vfptr(&a.ty) { a.ps as i128 } else { 0 };
    let mut expected = vec![];
    for (i, f) in a.ty.fields.iter().enumerate() {
        let off = f.addr.unwrap_or(end);
        expected.push(off);
        end = off + lay.sizes[i] as i128;
    }
    for (i, f) in a.ty.fields.iter().enumerate() {
        if let Some(name) = &f.name {
            v.push((
                format!("offset:{name}:{}", expected[i]),
                format!("core::mem::offset_of!(T, {name}) as i128 == {}", expected[i]),
            ));
            // the field has the declared type, hence the declared extent
            v.push((
                format!("extent:{name}:{}", lay.sizes[i]),
                format!("core::mem::size_of::<{}>() == {}", f.ty.rust(&rust_user), lay.sizes[i]),
            ));
        }
    }
    // (the vftable pointer itself is a generated private field; its presence at offset 0 shows in the
    // offsets of the declared fields and is C06's subject)
    v
}

fn c02_asserts(a: &Accepted) -> Vec<(String, String)> {
    let mut v = vec![];
    for (path, it) in &a.built.items {
        if it.category != "defined" || !path.starts_with("m::") {
            continue;
        }
        let name = path.rsplit("::").next().unwrap();
        v.push((format!("size:{name}:{}", it.size), format!("core::mem::size_of::<{name}>() == {}", it.size)));
        v.push((format!("align:{name}:{}", it.alignment), format!("core::mem::align_of::<{name}>() == {}", it.alignment)));
        v.push((format!("array:{name}:{}", it.size * 3), format!("core::mem::size_of::<[{name}; 3]>() == {}", it.size * 3)));
    }
    if let Some(s) = a.ty.size {
        v.push((format!("declared_size:T:{s}"), format!("core::mem::size_of::<T>() == {s}")));
    }
    if let Some(al) = a.ty.align {
        v.push((format!("declared_align:T:{al}"), format!("core::mem::align_of::<T>() == {al}")));
    }
    if a.ty.packed {
        v.push(("packed_align:T:1".to_string(), "core::mem::align_of::<T>() == 1".to_string()));
    }
    v
}

/// C02's additional spaces: by-value composition to depth 3, extern-type grid, empty types,
/// vftable structs with placeholder slots. Returns inputs (single module `m`) plus Rust text
/// supplying the extern types.
fn c02_extra_inputs() -> Vec<(pipe::Input, String)> {
    let mut out = vec![];
    let shapes = |inner: &str, name: &str, k: usize| -> String {
        match k {
            0 => format!("pub type {name} {{\n    pub e: {inner},\n}}\n"),
            1 => format!("pub type {name} {{\n    pub e: [{inner}; 3],\n}}\n"),
            2 => format!("pub type {name} {{\n    pub p: *const {inner},\n    pub e: {inner},\n}}\n"),
            3 => format!("#[packed]\npub type {name} {{\n    pub b: u8,\n    pub e: {inner},\n}}\n"),
            _ => format!("pub type {name} {{\n    pub a: {inner},\n    pub b: {inner},\n}}\n"),
        }
    };
    for b in ["u8", "u16", "u32", "u64", "u128", "f64", "bool", "*mut u8"] {
        for k1 in 0..5 {
            for k2 in 0..5 {
                for k3 in 0..5 {
                    let text = format!("{}{}{}", shapes(b, "L1", k1), shapes("L1", "L2", k2), shapes("L2", "L3", k3));
                    out.push((pipe::Input::single(text), String::new()));
                }
            }
        }
    }
    for size in [1u64, 4, 12, 16, 24] {
        for align in [1u64, 4, 8, 16] {
            let text = format!("#[size({size}), align({align})]\nextern type Ext;\npub type U {{\n    pub e: Ext,\n}}\npub type V {{\n    pub a: [Ext; 2],\n    pub b: Ext,\n}}\n#[packed]\npub type W {{\n    pub x: u8,\n    pub e: Ext,\n}}\n");
            // supplied with the declared size; alignment through the element type where possible
            let elem = match align { 1 => "u8", 4 => "u32", 8 => "u64", _ => "u128" };
            let supply = if size % align == 0 { format!("#[repr(C)] #[derive(Clone, Copy)] pub struct Ext(pub [{elem}; {}]);\n", size / align) } else { format!("#[repr(C, align({align}))] #[derive(Clone, Copy)] pub struct Ext(pub [u8; {size}]);\n") };
            out.push((pipe::Input::single(text), supply));
        }
    }
    // zero-length arrays of types that may be resolved before or after their users (several users, declared on
    // both sides of the element type, so that some of them are attempted first under any visiting order)
    for (elem, def, attr) in [("Big", "#[align(16)]\npub type Big {\n    pub a: u128,\n}\n", "#[align(16)]\n"), ("Small", "pub type Small {\n    pub a: u16,\n}\n", "#[align(2)]\n"), ("Ptr", "pub type Ptr {\n    pub p: *const Ptr,\n}\n", "")] {
        let user = |i: usize| format!("pub type User{i} {{\n    pub tail: [{elem}; 0],\n}}\n{attr}pub type Pre{i} {{\n    pub head: {elem},\n    pub tail: [{elem}; 0],\n}}\n{attr}pub type Wrap{i} {{\n    pub u: User{i},\n    pub arr: [User{i}; 2],\n}}\n");
        let text = format!("{}{}{}{}{}{}{}", user(0), user(1), user(2), def, user(3), user(4), user(5));
        out.push((pipe::Input::single(text), String::new()));
    }
    out.push((pipe::Input::single("pub type Empty {\n}\npub type Holder {\n    pub e: Empty,\n    pub x: u64,\n}\npub type Arr {\n    pub e: [Empty; 4],\n}\n#[size(16)]\npub type Opaque;\n#[size(3), packed]\npub type Odd;\n".to_string()), String::new()));
    for nf in 0..=4usize {
        for gap in 0..3usize {
            for size in [None, Some(nf + gap * nf + 3)] {
                let mut t = String::from("pub type T {\n");
                if let Some(s) = size {
                    t.push_str(&format!("    #[size({s})]\n"));
                }
                t.push_str("    vftable {\n");
                for i in 0..nf {
                    if gap > 0 {
                        t.push_str(&format!("        #[index({})]\n", i * (gap + 1)));
                    }
                    t.push_str(&format!("        pub fn v{i}(&self, a: u32) -> u64;\n"));
                }
                t.push_str("    },\n    pub x: *const u8,\n}\npub type D {\n    #[base]\n    pub base: T,\n    pub y: *const u8,\n}\n");
                out.push((pipe::Input::single(t), String::new()));
            }
        }
    }
    out
}

/// Builds the auxiliary module alone and compiles it with the harness's asserts about its types.
pub fn aux_module_violation(space: &LayoutSpace, ps: usize, target: Target, prop: &str) -> Option<Violation> {
    let mut t = TypeS::new("T");
    t.fields = vec![FieldS::new("x", MTy::b("u32"))];
    let input = to_input(&space.modules_for(&t));
    let loc = json!({"space": "aux_module", "index": 0, "ps": ps});
    let mk = |key: String, detail: String| Violation { key, features: vec!["auxiliary_module".into()], input: input.clone(), ps, detail, locator: loc.clone() };
    match pipe::run(&input, ps) {
        pipe::Verdict::Ok(b) => {
            let mut files = b.files.clone();
            let Some(aux) = files.get_mut("aux.rs") else {
                return Some(mk("no_output_file".into(), format!("files: {:?}", files.keys().collect::<Vec<_>>())));
            };
            aux.push_str("\n// ---- appended by the verification harness ----\n");
            aux.push_str(aux_extern_rust());
            aux.push_str(AUX_ASSERTS);
            match check_cases(&[RCase::new(files)], target, 1) {
                Ok((diags, _)) if diags[0].is_empty() => None,
                Ok((diags, _)) => {
                    let d = &diags[0][0];
                    let key = if d.rendered.contains("assertion failed") { "assert_failed:auxiliary_types".to_string() } else { format!("compile_error:{}", d.code) };
                    // a compile error that is not about layout is C13's subject; C01 / C02 cannot proceed without the module
                    Some(mk(key, format!("the auxiliary module (property {prop} uses it in every case) does not compile with its size / alignment asserts:\n{}", diags[0].iter().take(3).map(|d| d.rendered.clone()).collect::<Vec<_>>().join("\n"))))
                }
                Err(_) => None,
            }
        }
        pipe::Verdict::Panic(p) => Some(mk("panic".into(), p)),
        other => Some(mk("valid_input_rejected".into(), other.err_text())),
    }
}

pub fn run(prop: &str, tier: &str, only: Option<&Value>) -> i32 {
    let mut rep = Report::new(prop, tier);
    let space = LayoutSpace::new_reduced(tier, true);
    rep.rule = format!(
        "E1 bounded-exhaustive layout space with auxiliary definitions (nested struct, aligned struct, extern type, enum, self pointer): {} descriptions per width; every case pyxis accepts is compiled by rustc for its width's target with const asserts appended; distinct = distinct (emitted text + asserts)",
        space.len()
    );
    rep.assumptions = vec![
        "rustc's layout of the emitted text on x86_64-unknown-linux-gnu (ps 8) and i686-pc-windows-msvc (ps 4) is ground truth".into(),
        "expected offsets come from the description via the reference model's sequential fold; the model's built-in table is validated against rustc in this run".into(),
    ];
    if let Some(l) = only {
        if l["space"] == "aux_module" {
            let ps = l["ps"].as_u64().unwrap_or(8) as usize;
            return match aux_module_violation(&space, ps, Target::for_ps(ps), prop) {
                Some(v) => {
                    println!("{}\n{}: {}\nreplay: still failing", v.input.render(), v.key, v.detail);
                    1
                }
                None => {
                    println!("replay: passes");
                    0
                }
            };
        }
    }
    let only_idx = only.map(|l| (l["index"].as_u64().unwrap_or(0) as usize, l["ps"].as_u64().unwrap_or(8) as usize));
    for ps in [4usize, 8] {
        if let Some((_, p)) = only_idx {
            if p != ps {
                continue;
            }
        }
        let target = Target::for_ps(ps);
        if let Err(e) = validate_builtin_table(target) {
            rep.machinery(format!("{e:#}"));
            return rep.finish();
        }
        // The auxiliary module is part of every case and is compiled as a shared file: it is judged once, on
        // its own (its types are emitted items like any other), so that a fault in it is a verdict about the
        // subject and not an unattributable compile error.
        if let Some(v) = aux_module_violation(&space, ps, target, prop) {
            rep.violation(v);
            return rep.finish();
        }
        // the space is processed in chunks so that the accepted cases of a large (thorough) space
        // never have to be held in memory at once
        let chunks: Vec<std::ops::Range<usize>> = match only_idx {
            Some((i, _)) => vec![i..i + 1],
            None => (0..space.len()).step_by(CHUNK).map(|lo| lo..(lo + CHUNK).min(space.len())).collect(),
        };
        let mut sampled = 0;
        for chunk in chunks {
        let t0 = std::time::Instant::now();
        let accepted = explore(&space, ps, &mut rep, chunk);
        rep.count("ms_explore", t0.elapsed().as_millis() as u64);
        let t0 = std::time::Instant::now();
        // build compile cases, de-duplicated by full text
        let mut by_text: BTreeMap<u64, usize> = BTreeMap::new();
        let mut cases: Vec<RCase> = vec![];
        let mut owners: Vec<Vec<(usize, Vec<String>)>> = vec![];
        let mut labels: Vec<Vec<(String, String)>> = vec![];
        for (ai, a) in accepted.iter().enumerate() {
            let asserts = if prop == "C01" { c01_asserts(a, &space.env) } else { c02_asserts(a) };
            let mut files = a.built.files.clone();
            let Some(text) = files.get_mut("m.rs") else {
                rep.violation(Violation {
                    key: "no_output_file".into(),
                    features: vec![],
                    input: a.input.clone(),
                    ps,
                    detail: format!("accepted build produced files {:?}", files.keys().collect::<Vec<_>>()),
                    locator: json!({"space": "layout_aux", "index": a.index, "ps": ps}),
                });
                continue;
            };
            // cases with the same emitted text are compiled once, with the union of their asserts
            let h = util::fnv(text);
            let mut shared = BTreeMap::new();
            if let Some(mut aux) = files.remove("aux.rs") {
                aux.push_str("\n// ---- appended by the verification harness ----\n");
                aux.push_str(aux_extern_rust());
                aux.push_str(AUX_ASSERTS);
                shared.insert("aux.rs".to_string(), aux);
            }
            match by_text.get(&h) {
                Some(ci) => {
                    owners[*ci].push((ai, asserts.iter().map(|a| a.0.clone()).collect()));
                    for a in asserts {
                        if !labels[*ci].contains(&a) {
                            labels[*ci].push(a);
                        }
                    }
                }
                None => {
                    by_text.insert(h, cases.len());
                    cases.push(RCase { files, prelude: String::new(), shared });
                    owners.push(vec![(ai, asserts.iter().map(|a| a.0.clone()).collect())]);
                    labels.push(asserts);
                }
            }
        }
        for (ci, c) in cases.iter_mut().enumerate() {
            c.files.get_mut("m.rs").unwrap().push_str(&appendix(&labels[ci]));
        }
        rep.count(&format!("compiled_distinct_ps{ps}"), cases.len() as u64);
        for c in &cases {
            rep.distinct.insert(util::fnv(&format!("{ps}{}", c.files["m.rs"])));
        }
        let (mut diags, stats) = match check_cases(&cases, target, 400) {
            Ok(x) => x,
            Err(e) => {
                rep.machinery(format!("{e:#}"));
                return rep.finish();
            }
        };
        // thorough: the 64-bit cases are also laid out by the x86_64-pc-windows-msvc rules
        if tier == "thorough" && ps == 8 {
            match check_cases(&cases, Target::X64Msvc, 400) {
                Ok((d2, st2)) => {
                    rep.count("rustc_invocations_x86_64_msvc", st2.rustc_invocations as u64);
                    for (i, d) in d2.into_iter().enumerate() {
                        if diags[i].is_empty() {
                            diags[i] = d;
                        }
                    }
                }
                Err(e) => {
                    rep.machinery(format!("{e:#}"));
                    return rep.finish();
                }
            }
        }
        rep.count("rustc_invocations", stats.rustc_invocations as u64);
        rep.count("ms_rustc", t0.elapsed().as_millis() as u64);
        rep.count("asserts_checked", labels.iter().map(|l| l.len() as u64).sum());
        for (ci, ds) in diags.iter().enumerate() {
            if ds.is_empty() {
                continue;
            }
            for (ai, own_labels) in &owners[ci] {
                let a = &accepted[*ai];
                // the first diagnostic that concerns this description: an assert it contributed,
                // or a plain compile error
                let Some(d) = ds.iter().find(|d| match d.rendered.split("@@").nth(1) {
                    Some(l) => own_labels.iter().any(|x| x == l),
                    None => true,
                }) else {
                    continue;
                };
                let label = d
                    .rendered
                    .split("@@")
                    .nth(1)
                    .map(|s| s.to_string())
                    .unwrap_or_else(|| format!("{}:{}", d.code, d.message));
                let kind = label.split(':').next().unwrap_or("").to_string();
                let key = if d.rendered.contains("@@") { format!("assert_failed:{kind}") } else { format!("compile_error:{}", d.code) };
                // A case that does not type-check for reasons other than the asserts or a
                // missing declared field is C13's business; it is counted, not judged here.
                let relevant = d.rendered.contains("@@") || ds.iter().any(|d| d.code == "E0609" || d.code == "E0512");
                if !relevant {
                    rep.count(&format!("not_compilable_{}_(judged_by_C13)", d.code), 1);
                    continue;
                }
                let mut features = vec![];
                if a.ty.packed {
                    features.push("packed".to_string());
                }
                if a.ty.vft.is_some() {
                    features.push("vftable".to_string());
                }
                for f in &a.ty.fields {
                    if let Some(u) = f.ty.by_value_user() {
                        features.push(format!("embeds:{u}"));
                    }
                    if matches!(&f.ty, MTy::Arr(_, 0) | MTy::Unk(0)) && f.name.is_some() {
                        features.push("named_zero_length_array".to_string());
                    }
                }
                features.sort();
                features.dedup();
                rep.violation(Violation {
                    key,
                    features,
                    input: a.input.clone(),
                    ps,
                    detail: format!("{label}\n{}\n--- emitted ---\n{}", ds.iter().map(|d| d.rendered.clone()).collect::<Vec<_>>().join("\n"), a.built.files["m.rs"].clone()),
                    locator: json!({"space": "layout_aux", "index": a.index, "ps": ps}),
                });
            }
        }
        if sampled < 3 {
            if let Some(a) = accepted.get(accepted.len() / 2) {
                sampled += 1;
                rep.sample(json!({"ps": ps, "index": a.index, "input": a.input.render(), "asserts": if prop == "C01" { c01_asserts(a, &space.env) } else { c02_asserts(a) }.iter().map(|x| x.1.clone()).collect::<Vec<_>>() }));
            }
        }
        if only_idx.is_some() {
            for a in &accepted {
                println!("{}", a.input.render());
            }
        }
        } // chunks
        if prop == "C02" && only_idx.is_none() {
            // composition / extern grid / empty / vftable spaces
            let extras = c02_extra_inputs();
            let outs = util::par_map(extras.len(), |j, _| pipe::run(&extras[j].0, ps));
            let mut xc = vec![];
            let mut xo = vec![];
            for (j, v) in outs.into_iter().enumerate() {
                rep.states += 1;
                rep.traces += 1;
                rep.evaluations += 1;
                rep.transitions += 1;
                let pipe::Verdict::Ok(b) = v else {
                    rep.count("extra_spaces_rejected", 1);
                    continue;
                };
                rep.count("extra_spaces_accepted", 1);
                let mut asserts = vec![];
                for (path, it) in &b.items {
                    if it.category != "defined" {
                        continue;
                    }
                    let name = path.rsplit("::").next().unwrap();
                    asserts.push((format!("size:{name}:{}", it.size), format!("core::mem::size_of::<{name}>() == {}", it.size)));
                    asserts.push((format!("align:{name}:{}", it.alignment), format!("core::mem::align_of::<{name}>() == {}", it.alignment)));
                    asserts.push((format!("array:{name}:{}", it.size * 3), format!("core::mem::size_of::<[{name}; 3]>() == {}", it.size * 3)));
                }
                let mut files = b.files.clone();
                let text = files.get_mut("m.rs").unwrap();
                text.push_str(&extras[j].1);
                text.push_str(&appendix(&asserts));
                rep.distinct.insert(util::fnv(&format!("{ps}{text}")));
                xc.push(RCase::new(files));
                xo.push(j);
            }
            match check_cases(&xc, target, 100) {
                Err(e) => rep.machinery(format!("{e:#}")),
                Ok((diags, _)) => {
                    for (ci, ds) in diags.iter().enumerate() {
                        if ds.is_empty() {
                            continue;
                        }
                        let d = &ds[0];
                        if !d.rendered.contains("@@") {
                            rep.count(&format!("not_compilable_{}_(judged_by_C13)", d.code), 1);
                            continue;
                        }
                        let label = d.rendered.split("@@").nth(1).unwrap_or("").to_string();
                        rep.violation(Violation { key: format!("assert_failed:{}", label.split(':').next().unwrap()), features: vec!["extra_space".into()], input: extras[xo[ci]].0.clone(), ps, detail: format!("{label}\n{}", d.rendered), locator: json!({"space": "c02_extra", "index": xo[ci], "ps": ps}) });
                    }
                }
            }
        }
        if only_idx.is_some() {
            let failed = !rep.violations.is_empty();
            println!("replay: {}", if failed { "still failing" } else { "passes" });
            for v in &rep.violations {
                println!("{}", v.detail);
            }
            return if failed { 1 } else { 0 };
        }
    }
    rep.extra.insert("space_size_per_width".into(), json!(space.len()));
    rep.finish()
}
