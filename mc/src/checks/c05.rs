//! C05 — address-bound wrappers call the declared address with the declared signature.
//! E1 over impl blocks; oracles: X (execution against recording stubs) and S (syn).

use std::collections::BTreeMap;

use serde_json::{json, Value};

use crate::{exec_oracle::*, pipe, report::*, rustc_oracle::RCase, spec::*, synx, util};

pub const EXEC_ADDRS: &[u64] = &[0x0001_0000, 0x1000_2340, 0x2000_0010, 0x3FFF_FFF0, 0x7000_1238];
const TEXT_ONLY_ADDRS: &[u64] = &[0x123, 0, 0x7FFF_FFFF_FFFF_FFFF, 1, 0x7FFF_FFFF, 0x8000_0000, 0xFFFF_FFFF, 0x1_0000_0000, 0x8000_0000_0000_0000, 0xFFFF_FFFF_8000_1000];
pub const RET_SENTINEL: u64 = 0x8877_6655_4433_2201;

#[derive(Clone, Debug, PartialEq)]
pub enum ATy {
    U16,
    I32,
    U64,
    PtrU8,
    PtrSelf,
}

impl ATy {
    fn mty(&self) -> MTy {
        match self {
            ATy::U16 => MTy::b("u16"),
            ATy::I32 => MTy::b("i32"),
            ATy::U64 => MTy::b("u64"),
            ATy::PtrU8 => MTy::b("u8").cptr(),
            ATy::PtrSelf => MTy::user("T").mptr(),
        }
    }
    pub fn mask(&self) -> u64 {
        match self {
            ATy::U16 => 0xffff,
            ATy::I32 => 0xffff_ffff,
            _ => u64::MAX,
        }
    }
    fn rust_value(&self, v: u64) -> String {
        match self {
            ATy::U16 => format!("{:#x}u64 as u16", v),
            ATy::I32 => format!("{:#x}u64 as i32", v),
            ATy::U64 => format!("{:#x}u64", v),
            ATy::PtrU8 => format!("{:#x}usize as *const u8", v),
            ATy::PtrSelf => format!("{:#x}usize as *mut T", v),
        }
    }
    fn rust_type(&self) -> &'static str {
        match self {
            ATy::U16 => "u16",
            ATy::I32 => "i32",
            ATy::U64 => "u64",
            ATy::PtrU8 => "*const u8",
            ATy::PtrSelf => "*mut crate::m::T",
        }
    }
}

const ATYS: &[ATy] = &[ATy::U16, ATy::I32, ATy::U64, ATy::PtrU8, ATy::PtrSelf];

#[derive(Clone, Debug, PartialEq)]
pub enum RTy {
    None,
    I32,
    U64,
    Bool,
    PtrU8,
}

impl RTy {
    fn mty(&self) -> Option<MTy> {
        match self {
            RTy::None => None,
            RTy::I32 => Some(MTy::b("i32")),
            RTy::U64 => Some(MTy::b("u64")),
            RTy::Bool => Some(MTy::b("bool")),
            RTy::PtrU8 => Some(MTy::b("u8").mptr()),
        }
    }
    fn mask(&self) -> u64 {
        match self {
            RTy::None => 0,
            RTy::I32 => 0xffff_ffff,
            RTy::Bool => 0xff,
            _ => u64::MAX,
        }
    }
    fn rust_type(&self) -> Option<&'static str> {
        match self {
            RTy::None => None,
            RTy::I32 => Some("i32"),
            RTy::U64 => Some("u64"),
            RTy::Bool => Some("bool"),
            RTy::PtrU8 => Some("*mut u8"),
        }
    }
}

const RTYS: &[RTy] = &[RTy::None, RTy::I32, RTy::U64, RTy::Bool, RTy::PtrU8];

#[derive(Clone, Debug)]
pub struct Func {
    pub name: String,
    pub recv: Recv,
    pub args: Vec<ATy>,
    pub ret: RTy,
    pub addr: u64,
    pub public: bool,
}

#[derive(Clone, Debug)]
struct Case {
    funcs: Vec<Func>,
    style: NumStyle,
    exec: bool,
    reject: Option<&'static str>,
    raw: Option<String>,
    /// the functions are spread over two impl blocks of the same type
    split_impl: bool,
    /// parameter names to use instead of a0, a1, ...
    arg_names: Option<Vec<&'static str>>,
    /// for raw cases that may be accepted: (type, method) pairs that must then exist
    expect_methods: Vec<(&'static str, &'static str)>,
}

pub fn arg_value(i: usize) -> u64 {
    0x1111_1111_1111_1111u64.wrapping_mul(i as u64 + 1).wrapping_add(0x0123)
}

fn arg_vectors() -> Vec<Vec<ATy>> {
    let mut out = vec![];
    let full = if std::env::var("VERIF_TIER").as_deref() == Ok("thorough") { 4 } else { 3 };
    for len in 0..=full {
        for idx in 0..ATYS.len().pow(len as u32) {
            out.push(util::decode(idx, &vec![ATYS.len(); len]).iter().map(|i| ATYS[*i].clone()).collect());
        }
    }
    for len in (full + 1)..=6usize {
        for rot in 0..ATYS.len() {
            out.push((0..len).map(|i| ATYS[(i + rot) % ATYS.len()].clone()).collect());
        }
    }
    out
}

fn cases() -> Vec<Case> {
    let mut out = vec![];
    let styles = [NumStyle::Dec, NumStyle::Hex, NumStyle::Under];
    let mut k = 0usize;
    for recv in [Recv::None, Recv::Const, Recv::Mut] {
        for args in arg_vectors() {
            // one type per (receiver, argument vector) with one function per return type
            let funcs: Vec<Func> = RTYS
                .iter()
                .enumerate()
                .map(|(ri, r)| {
                    k += 1;
                    Func { name: format!("f{ri}"), recv, args: args.clone(), ret: r.clone(), addr: EXEC_ADDRS[(k + ri) % EXEC_ADDRS.len()] + 0x40 * ri as u64, public: true }
                })
                .collect();
            out.push(Case { funcs, style: styles[k % 3], exec: true, reject: None, raw: None, split_impl: false, arg_names: None, expect_methods: vec![] });
        }
    }
    // every executable address in every spelling
    for a in EXEC_ADDRS {
        for st in styles {
            out.push(Case { funcs: vec![Func { name: "f".into(), recv: Recv::Const, args: vec![ATy::U64], ret: RTy::U64, addr: *a, public: true }], style: st, exec: true, reject: None, raw: None, split_impl: false, arg_names: None, expect_methods: vec![] });
        }
    }
    // addresses that cannot be mapped: literal checked in the text only
    for a in TEXT_ONLY_ADDRS {
        for st in styles {
            out.push(Case { funcs: vec![Func { name: "f".into(), recv: Recv::Mut, args: vec![ATy::I32], ret: RTy::I32, addr: *a, public: false }], style: st, exec: false, reject: None, raw: None, split_impl: false, arg_names: None, expect_methods: vec![] });
        }
    }
    // the functions of a type spread over two impl blocks
    for recv in [Recv::None, Recv::Const] {
        let funcs: Vec<Func> = (0..4).map(|i| Func { name: format!("f{i}"), recv, args: vec![ATy::U64, ATy::I32], ret: RTYS[i % RTYS.len()].clone(), addr: EXEC_ADDRS[i % EXEC_ADDRS.len()] + 0x400 + 0x40 * i as u64, public: true }).collect();
        out.push(Case { funcs, style: NumStyle::Hex, exec: true, reject: None, raw: None, split_impl: true, arg_names: None, expect_methods: vec![] });
    }
    // parameter names that collide with names the wrapper itself uses
    for names in [vec!["f", "this"], vec!["this", "f"], vec!["f_", "f"], vec!["r#type", "address"], vec!["name", "function"], vec!["r#f", "g"], vec!["f", "r#f_"], vec!["r#f_", "r#f"], vec!["r#this", "f__"]] {
        for recv in [Recv::None, Recv::Mut] {
            let funcs = vec![Func { name: "g".into(), recv, args: vec![ATy::U64, ATy::PtrU8], ret: RTy::U64, addr: EXEC_ADDRS[1] + 0x800, public: true }];
            out.push(Case { funcs, style: NumStyle::Dec, exec: true, reject: None, raw: None, split_impl: false, arg_names: Some(names.clone()), expect_methods: vec![] });
        }
    }
    // impl blocks that do not belong to a type of the module: rejected, or every function emitted
    for (text, expect) in [
        ("pub enum E: u32 {\n    A,\n}\nimpl E {\n    #[address(0x10000)]\n    pub fn f(&self);\n}\n", vec![("E", "f")]),
        ("#[size(4), align(4)]\nextern type X;\nimpl X {\n    #[address(0x10000)]\n    pub fn f(&self);\n}\n", vec![("X", "f")]),
        ("pub type T {\n    pub x: [u32; 4],\n}\nimpl Missing {\n    #[address(0x10000)]\n    pub fn f(&self);\n}\n", vec![("Missing", "f")]),
        ("pub type T {\n    pub x: [u32; 4],\n}\nimpl T {\n    #[address(0x10000)]\n    pub fn f(&self);\n}\nimpl T {\n    #[address(0x10040)]\n    pub fn g(&self);\n}\nimpl T {\n    #[address(0x10080)]\n    pub fn h(&self);\n}\n", vec![("T", "f"), ("T", "g"), ("T", "h")]),
    ] {
        out.push(Case { funcs: vec![], style: NumStyle::Dec, exec: false, reject: None, raw: Some(text.to_string()), split_impl: false, arg_names: None, expect_methods: expect });
    }
    // a signature naming a type that the own module and an imported module both define
    out.push(Case { funcs: vec![], style: NumStyle::Dec, exec: false, reject: None, raw: Some("@@two_modules".into()), split_impl: false, arg_names: None, expect_methods: vec![] });
    // the same name in the module and in its parent module: the signature refers to the module's own type
    out.push(Case { funcs: vec![], style: NumStyle::Dec, exec: false, reject: None, raw: Some("@@nested_modules".into()), split_impl: false, arg_names: None, expect_methods: vec![] });
    // a derived type declares a function that its base already has: refused, or emitted with its own address
    out.push(Case { funcs: vec![], style: NumStyle::Dec, exec: false, reject: None, raw: Some("@@redeclared_in_derived".into()), split_impl: false, arg_names: None, expect_methods: vec![] });
    // rejection menu
    for (why, text) in [
        ("no_address", "pub type T {\n    pub x: u64,\n}\nimpl T {\n    pub fn f(&self);\n}\n"),
        ("no_address_among_others", "pub type T {\n    pub x: u64,\n}\nimpl T {\n    #[address(0x10000)]\n    pub fn g(&self);\n    pub fn f(&self);\n}\n"),
        ("unresolvable_parameter", "pub type T {\n    pub x: u64,\n}\nimpl T {\n    #[address(0x10000)]\n    pub fn f(&self, a: Nope);\n}\n"),
        ("unresolvable_pointer_parameter", "pub type T {\n    pub x: u64,\n}\nimpl T {\n    #[address(0x10000)]\n    pub fn f(&self, a: u32, b: *const Nope);\n}\n"),
        ("unresolvable_return", "pub type T {\n    pub x: u64,\n}\nimpl T {\n    #[address(0x10000)]\n    pub fn f(&self) -> Nope;\n}\n"),
        ("unresolvable_pointer_return", "pub type T {\n    pub x: u64,\n}\nimpl T {\n    #[address(0x10000)]\n    pub fn f(&self) -> *mut Nope;\n}\n"),
        ("index_on_impl_function", "pub type T {\n    pub x: u64,\n}\nimpl T {\n    #[address(0x10000), index(1)]\n    pub fn f(&self);\n}\n"),
        ("negative_address", "pub type T {\n    pub x: u64,\n}\nimpl T {\n    #[address(-16)]\n    pub fn f(&self);\n}\n"),
        ("duplicate_function_across_impl_blocks", "pub type T {\n    pub x: [u32; 4],\n}\nimpl T {\n    #[address(0x10000)]\n    pub fn f(&self);\n}\nimpl T {\n    #[address(0x10040)]\n    pub fn f(&self, a: u32);\n    #[address(0x10080)]\n    pub fn g(&self);\n}\n"),
        ("duplicate_function", "pub type T {\n    pub x: u64,\n}\nimpl T {\n    #[address(0x10000)]\n    pub fn f(&self);\n    #[address(0x10040)]\n    pub fn f(&self, a: u32);\n}\n"),
    ] {
        out.push(Case { funcs: vec![], style: NumStyle::Dec, exec: false, reject: Some(why), raw: Some(text.to_string()), split_impl: false, arg_names: None, expect_methods: vec![] });
    }
    out
}

fn arg_name(c: &Case, i: usize) -> String {
    match &c.arg_names {
        Some(n) => n[i].to_string(),
        None => format!("a{i}"),
    }
}

fn module_of(c: &Case) -> String {
    if let Some(r) = &c.raw {
        if r == "@@nested_modules" {
            return "pub type Handle {\n    pub x: [u32; 4],\n}\npub type T {\n    pub h: Handle,\n}\nimpl T {\n    #[address(0x10000)]\n    pub fn f(&self, a: *mut Handle) -> *const Handle;\n}\n".into();
        }
        if r == "@@redeclared_in_derived" {
            return "pub type B {\n    pub x: [u32; 4],\n}\nimpl B {\n    #[address(0x401000)]\n    pub fn update(&self, dt: u32);\n}\npub type T {\n    #[base]\n    pub base: B,\n}\nimpl T {\n    #[address(0x402000)]\n    pub fn update(&self, dt: u32);\n}\n".into();
        }
        if r == "@@two_modules" {
            return "use aaa;\nuse zzz;\npub type Handle {\n    pub x: [u32; 4],\n}\npub type T {\n    pub h: Handle,\n}\nimpl T {\n    #[address(0x10000)]\n    pub fn f(&self, a: *mut Handle, b: Foreign) -> *const Handle;\n}\n".into();
        }
        return r.clone();
    }
    let mut t = TypeS::new("T");
    t.fields = vec![FieldS::new("x", MTy::b("u32").arr(4))];
    let funcs = c
        .funcs
        .iter()
        .map(|f| {
            let mut fs = FuncS::new(&f.name);
            fs.public = f.public;
            fs.recv = f.recv;
            fs.address = Some(f.addr as i128);
            fs.args = f.args.iter().enumerate().map(|(i, a)| (arg_name(c, i), a.mty())).collect();
            fs.ret = f.ret.mty();
            fs
        })
        .collect::<Vec<FuncS>>();
    let mut items = vec![Item::Type(t)];
    if c.split_impl {
        let (a, b) = funcs.split_at(funcs.len() / 2);
        items.push(Item::Impl { name: "T".into(), funcs: a.to_vec() });
        items.push(Item::Impl { name: "T".into(), funcs: b.to_vec() });
    } else {
        items.push(Item::Impl { name: "T".into(), funcs });
    }
    Printer { style: c.style, reverse_type_attrs: false, docs_after_attrs: false, attr_order: 0 }.module(&ModuleS::new("m").with(items))
}

fn driver(c: &Case) -> String {
    let mut s = String::from("\n#[allow(warnings)]\npub mod __verif_exec {\n    use super::*;\n    pub unsafe fn run() {\n        let mut obj: T = core::mem::zeroed();\n");
    for f in &c.funcs {
        s.push_str(&format!("        crate::rt::map_stub_at({:#x});\n", f.addr));
        s.push_str(&format!("        crate::rt::set_ret({RET_SENTINEL:#x});\n        crate::rt::begin(\"{}\");\n", f.name));
        let args: Vec<String> = f.args.iter().enumerate().map(|(i, a)| a.rust_value(arg_value(i))).collect();
        let call = match f.recv {
            Recv::None => format!("T::{}({})", f.name, args.join(", ")),
            _ => format!("obj.{}({})", f.name, args.join(", ")),
        };
        match f.ret {
            RTy::None => s.push_str(&format!("        let _: () = {call};\n        crate::rt::end(0, &[&obj as *const T as u64]);\n")),
            _ => s.push_str(&format!("        let r: {} = {call};\n        crate::rt::end(r as u64, &[&obj as *const T as u64]);\n", f.ret.rust_type().unwrap())),
        }
    }
    s.push_str("    }\n}\n");
    s
}

fn judge_text(c: &Case, text: &str) -> Option<(String, String)> {
    let fi = match synx::file_info(text) {
        Ok(f) => f,
        Err(e) => return Some(("output_unreadable".into(), e)),
    };
    if c.raw.as_deref() == Some("@@nested_modules") {
        let Some(m) = fi.method("T", "f") else {
            return Some(("wrapper_missing".into(), "T::f".into()));
        };
        let want_in = vec![("&self".to_string(), String::new()), ("a".to_string(), "*mut crate::game::ui::Handle".to_string())];
        if m.inputs != want_in || m.output.as_deref() != Some("*const crate::game::ui::Handle") {
            return Some(("wrapper_signature_differs".into(), format!("game::ui::T::f: declared (&self, a: *mut Handle) -> *const Handle with Handle defined in game::ui itself, emitted {:?} -> {:?}", m.inputs, m.output)));
        }
    }
    if c.raw.as_deref() == Some("@@redeclared_in_derived") {
        // accepted: then T::update is the function declared for T, at T's address
        let updates: Vec<&synx::FnInfo> = fi.methods("T").into_iter().filter(|m| m.name == "update").collect();
        if updates.len() != 1 || synx::int_literals(&updates[0].body) != vec![0x402000] {
            return Some(("wrapper_address_literal_differs".into(), format!("T::update is declared at 0x402000 (its base has an `update` at 0x401000); emitted: {:?}", updates.iter().map(|m| m.body.clone()).collect::<Vec<_>>())));
        }
    }
    if c.raw.as_deref() == Some("@@two_modules") {
        let Some(m) = fi.method("T", "f") else {
            return Some(("wrapper_missing".into(), "T::f".into()));
        };
        let want_in = vec![("&self".to_string(), String::new()), ("a".to_string(), "*mut crate::m::Handle".to_string()), ("b".to_string(), "crate::aaa::Foreign".to_string())];
        if m.inputs != want_in || m.output.as_deref() != Some("*const crate::m::Handle") {
            return Some(("wrapper_signature_differs".into(), format!("T::f: declared (&self, a: *mut Handle [own module], b: Foreign [module aaa]) -> *const Handle, emitted {:?} -> {:?}", m.inputs, m.output)));
        }
    }
    for (ty, m) in &c.expect_methods {
        if fi.method(ty, m).is_none() {
            return Some(("declared_function_not_emitted".into(), format!("the build succeeded but `{ty}::{m}` declared in an impl block is nowhere in the output:\n{text}")));
        }
    }
    for f in &c.funcs {
        let Some(m) = fi.method("T", &f.name) else {
            return Some(("wrapper_missing".into(), format!("T::{}", f.name)));
        };
        let mut want_inputs: Vec<(String, String)> = vec![];
        match f.recv {
            Recv::None => {}
            Recv::Const => want_inputs.push(("&self".into(), String::new())),
            Recv::Mut => want_inputs.push(("&mut self".into(), String::new())),
        }
        for (i, a) in f.args.iter().enumerate() {
            want_inputs.push((arg_name(c, i), synx::normalise(a.rust_type())));
        }
        let want_out = f.ret.rust_type().map(synx::normalise);
        if m.inputs != want_inputs || m.output != want_out {
            return Some(("wrapper_signature_differs".into(), format!("T::{}: declared {want_inputs:?} -> {want_out:?}, emitted {:?} -> {:?}", f.name, m.inputs, m.output)));
        }
        if m.public != f.public || !m.is_unsafe {
            return Some(("wrapper_qualifiers_differ".into(), format!("T::{}: pub={} unsafe={}", f.name, m.public, m.is_unsafe)));
        }
        // the only number in the wrapper is the declared address (however it is spelled)
        let lits = synx::int_literals(&m.body);
        if lits != vec![f.addr as u128] {
            return Some(("wrapper_address_literal_differs".into(), format!("T::{}: declared address {:#x}, integer literals in the body: {lits:x?}\n{}", f.name, f.addr, m.body)));
        }
    }
    None
}

fn judge_exec(c: &Case, recs: &[Record]) -> Option<(String, String)> {
    for f in &c.funcs {
        let Some(r) = recs.iter().find(|r| r.label == f.name) else {
            return Some(("no_record".into(), format!("no execution record for {}", f.name)));
        };
        let obj = r.extra.first().copied().unwrap_or(0);
        if r.events.len() != 1 {
            return Some(("call_count".into(), format!("{}: {} calls instead of exactly one", f.name, r.events.len())));
        }
        let e = &r.events[0];
        if e.stub != f.addr {
            return Some(("called_address".into(), format!("{}: called {:#x}, declared {:#x}", f.name, e.stub, f.addr)));
        }
        let mut slot = 0;
        if f.recv != Recv::None {
            if e.args[0] != obj {
                return Some(("receiver".into(), format!("{}: receiver {:#x}, object at {:#x}", f.name, e.args[0], obj)));
            }
            slot = 1;
        }
        for (i, a) in f.args.iter().enumerate() {
            let got = e.args[slot + i] & a.mask();
            let want = arg_value(i) & a.mask();
            if got != want {
                return Some(("argument".into(), format!("{}: argument {i} ({:?}) is {got:#x}, passed {want:#x}; all recorded {:x?}", f.name, a, e.args)));
            }
        }
        let m = f.ret.mask();
        if r.ret & m != RET_SENTINEL & m {
            return Some(("return_value".into(), format!("{}: returned {:#x}, callee returned {:#x} (mask {m:#x})", f.name, r.ret, RET_SENTINEL)));
        }
    }
    None
}

/// Inputs for C13 (single-module cases that are expected to be accepted).
pub fn all_inputs() -> Vec<pipe::Input> {
    cases().iter().filter(|c| c.reject.is_none() && c.raw.is_none() && c.funcs.iter().all(|f| f.addr >> 32 == 0)).map(|c| pipe::Input::single(module_of(c))).collect()
}

pub fn run(tier: &str, only: Option<&Value>) -> i32 {
    let mut rep = Report::new("C05", tier);
    let all = cases();
    rep.rule = "E1 over impl blocks: receiver in {none, &self, &mut self} x every argument-type vector of length 0..3 over {u16, i32, u64, *const u8, *mut Self} and the five rotations of that vector at lengths 4..6 x return in {none, i32, u64, bool, *mut u8}; five executable absolute addresses in decimal / hex / underscore spelling; unmappable addresses (0, 1, 0x123, 2^63-1) checked in the text; a rejection menu. Oracle X: the emitted wrapper is executed on the host (conventions normalised to \"C\") against a recording stub mapped at the declared address: exactly one call, at that address, receiver = object address, arguments in declared order masked to their width, result = callee's result; oracle S: wrapper signature and address literal (syn). distinct = distinct (receiver, argument vector, return type, address)".into();
    rep.assumptions = vec!["System V x86-64 register assignment for extern \"C\" (rdi, rsi, rdx, rcx, r8, r9, then stack) is how the recording stub reads arguments".into(), "execution is on the 64-bit host only; at pointer width 4 the wrappers are checked as text".into()];
    let only_i = only.map(|l| l["index"].as_u64().unwrap_or(0) as usize);
    let idxs: Vec<usize> = match only_i {
        Some(i) => vec![i],
        None => (0..all.len()).collect(),
    };
    let mut xcases: Vec<RCase> = vec![];
    let mut xown: Vec<usize> = vec![];
    let mut inputs: BTreeMap<usize, pipe::Input> = BTreeMap::new();
    for ps in [4usize, 8] {
        let outs = util::par_map(idxs.len(), |j, _| {
            let c = &all[idxs[j]];
            let mut input = pipe::Input::single(module_of(c));
            if c.raw.as_deref() == Some("@@nested_modules") {
                input.modules[0].0 = "game::ui".into();
                input.modules.insert(0, ("game".into(), "pub type Handle {\n    pub y: [u32; 2],\n}\npub type Other {\n    pub h: Handle,\n}\n".into()));
            }
            if c.raw.as_deref() == Some("@@two_modules") {
                let other = "pub type Handle {\n    pub y: [u32; 2],\n    pub z: [u32; 2],\n}\npub enum Foreign: u32 {\n    A,\n}\n".to_string();
                input.modules.insert(0, ("aaa".into(), other.clone()));
                input.modules.push(("zzz".into(), other.replace("Foreign", "Other")));
            }
            let v = pipe::run(&input, ps);
            (input, v)
        });
        for (j, (input, v)) in outs.into_iter().enumerate() {
            let i = idxs[j];
            let c = &all[i];
            rep.states += 1;
            rep.traces += 1;
            rep.evaluations += 1;
            rep.transitions += c.funcs.len().max(1) as u64;
            for f in &c.funcs {
                rep.distinct_str(&format!("{:?}{:?}{:?}{:#x}", f.recv, f.args, f.ret, f.addr));
            }
            let loc = json!({"space": "impl_blocks", "index": i, "ps": ps});
            let viol = match (&v, c.reject) {
                (pipe::Verdict::Panic(p), _) => Some(("panic".to_string(), p.clone())),
                (pipe::Verdict::Ok(b), Some(why)) => Some((format!("accepted_but_must_reject:{why}"), b.files["m.rs"].clone())),
                (_, Some(why)) => {
                    rep.count(&format!("rejected_as_required_{why}"), 1);
                    None
                }
                // an address that needs more than 32 bits cannot be called at pointer width 4
                (pipe::Verdict::Err(_), None) if ps == 4 && c.funcs.iter().any(|f| f.addr >> 32 != 0) => {
                    rep.count("rejected_address_beyond_pointer_width", 1);
                    None
                }
                // the upper half of the 64-bit range is not representable in the language's integers: it may be refused
                // (at parse time or later); if it is accepted, the wrapper must still call exactly that address
                (pipe::Verdict::Err(_) | pipe::Verdict::ParseErr(..), None) if c.funcs.iter().any(|f| f.addr >> 63 != 0) => {
                    rep.count("rejected_address_beyond_isize", 1);
                    None
                }
                (pipe::Verdict::Err(_), None) if c.raw.as_deref() == Some("@@redeclared_in_derived") => {
                    rep.count("redeclaration_of_an_inherited_function_rejected", 1);
                    None
                }
                (pipe::Verdict::Ok(b), None) if c.raw.as_deref() == Some("@@nested_modules") => match b.files.get("game/ui.rs") {
                    Some(t) => judge_text(c, t).map(|(k, d)| (k, format!("{d}\n--- emitted ---\n{t}"))),
                    None => Some(("wrapper_missing".to_string(), format!("no output file game/ui.rs: {:?}", b.files.keys().collect::<Vec<_>>()))),
                },
                (pipe::Verdict::Ok(b), None) if !b.files.contains_key("m.rs") => Some(("wrapper_missing".to_string(), format!("no output file m.rs: {:?}", b.files.keys().collect::<Vec<_>>()))),
                (pipe::Verdict::Ok(b), None) => {
                    let r = judge_text(c, &b.files["m.rs"]);
                    if r.is_none() && ps == 8 && c.exec {
                        let mut files = b.files.clone();
                        files.get_mut("m.rs").unwrap().push_str(&driver(c));
                        xcases.push(RCase::new(files));
                        xown.push(i);
                        inputs.insert(i, input.clone());
                    }
                    r.map(|(k, d)| (k, format!("{d}\n--- emitted ---\n{}", b.files["m.rs"])))
                }
                (_, None) if !c.expect_methods.is_empty() && c.raw.as_deref().is_some_and(|r| !r.contains("impl T")) => {
                    // a block for something that is not a type of the module may be rejected
                    rep.count("foreign_impl_block_rejected", 1);
                    None
                }
                (other, None) => Some(("valid_input_rejected".to_string(), other.err_text())),
            };
            if let Some((key, detail)) = viol {
                rep.violation(Violation { key, features: vec![], input, ps, detail, locator: loc });
            } else if j % 151 == 0 {
                rep.sample(json!({"ps": ps, "input": input.render(), "verdict": v.class()}));
            }
        }
    }
    match run_cases(&xcases, "m::__verif_exec::run", 60) {
        Err(e) => rep.machinery(format!("{e:#}")),
        Ok(results) => {
            for (k, r) in results.iter().enumerate() {
                let i = xown[k];
                let c = &all[i];
                let loc = json!({"space": "impl_blocks", "index": i, "ps": 8});
                let input = inputs[&i].clone();
                let viol = if !r.compile.is_empty() {
                    Some((format!("driver_does_not_compile:{}", r.compile[0].code), r.compile.iter().map(|d| d.rendered.clone()).collect::<Vec<_>>().join("\n")))
                } else if let Some(cr) = &r.crashed {
                    Some(("wrapper_crashed".to_string(), format!("the runner died while executing this case: {cr}; records so far: {:?}", r.records)))
                } else {
                    rep.count("wrappers_executed", c.funcs.len() as u64);
                    judge_exec(c, &r.records)
                };
                if let Some((key, detail)) = viol {
                    rep.violation(Violation { key, features: vec![], input, ps: 8, detail, locator: loc });
                }
            }
        }
    }
    if only.is_some() {
        for v in &rep.violations {
            println!("{}\n{}: {}", v.input.render(), v.key, v.detail);
        }
        let failed = !rep.violations.is_empty() || !rep.machinery_errors.is_empty();
        println!("replay: {}", if failed { "still failing" } else { "passes" });
        return failed as i32;
    }
    rep.finish()
}
