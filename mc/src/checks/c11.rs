//! C11 — type names bind to the definition the scoping rules select.
//! E1 over module sets x ordered use lists; oracle: precedence model + syn + resolved size.

use serde_json::{json, Value};

use crate::{pipe, report::*, synx, util};

const PROVIDERS: &[(&str, &str, u64)] = &[("a", "u32", 4), ("b", "u64", 8), ("n::c", "[u64; 2]", 16)];
const LOCAL_SIZE: u64 = 2;

#[derive(Clone, Debug)]
struct Case {
    name: &'static str,
    defined: [bool; 3],
    local: bool,
    uses: Vec<usize>, // 0..3 = use module i, 3..6 = use module (i-3)::name
    /// module `a` provides the name as an extern type instead of a type definition
    a_extern: bool,
    /// 0: nothing; 1 / 2: `use b::Big<name>;` (a type whose name ends in the observed name) written before /
    /// after the other imports; 3: the observer module defines such a type itself
    suffix_twin: u8,
}

fn cases(tier: &str) -> Vec<Case> {
    let maxlen = if tier == "thorough" { 4 } else { 3 };
    let mut out = vec![];
    for name in ["X", "u32", "void"] {
        for dmask in 0..8u32 {
            for local in [false, true] {
                for len in 0..=maxlen {
                    for idx in 0..6usize.pow(len as u32) {
                        let uses = util::decode(idx, &vec![6; len]);
                        out.push(Case { name, defined: [dmask & 1 != 0, dmask & 2 != 0, dmask & 4 != 0], local, uses: uses.clone(), a_extern: false, suffix_twin: 0 });
                        if len <= 2 {
                            // a longer name that ends in the observed one must never stand in for it
                            for suffix_twin in 1..=3u8 {
                                out.push(Case { name, defined: [dmask & 1 != 0, dmask & 2 != 0, dmask & 4 != 0], local, uses: uses.clone(), a_extern: false, suffix_twin });
                            }
                        }
                        if dmask & 1 != 0 && name == "X" && len <= 2 {
                            out.push(Case { name, defined: [true, dmask & 2 != 0, dmask & 4 != 0], local, uses, a_extern: true, suffix_twin: 0 });
                        }
                    }
                }
            }
        }
    }
    out
}

fn input_of(c: &Case) -> pipe::Input {
    let mut modules = vec![];
    for (i, (path, fty, _)) in PROVIDERS.iter().enumerate() {
        let mut text = String::new();
        if c.defined[i] && i == 0 && c.a_extern {
            text.push_str(&format!("#[size(4), align(4)]\nextern type {};\n", c.name));
        } else if c.defined[i] {
            text.push_str(&format!("pub type {} {{\n    pub v: {fty},\n}}\n", c.name));
        } else {
            text.push_str("pub type Other {\n    pub v: u8,\n}\n");
        }
        if i == 1 && c.suffix_twin > 0 {
            text.push_str(&format!("pub type Big{} {{\n    pub v: [u64; 5],\n}}\n", c.name));
        }
        modules.push((path.to_string(), text));
    }
    let mut o = String::new();
    if c.suffix_twin == 1 {
        o.push_str(&format!("use b::Big{};\n", c.name));
    }
    for u in &c.uses {
        if *u < 3 {
            o.push_str(&format!("use {};\n", PROVIDERS[*u].0));
        } else {
            o.push_str(&format!("use {}::{};\n", PROVIDERS[*u - 3].0, c.name));
        }
    }
    if c.suffix_twin == 2 {
        o.push_str(&format!("use b::Big{};\n", c.name));
    }
    if c.suffix_twin == 3 {
        o.push_str(&format!("pub type Big{} {{\n    pub v: [u64; 7],\n}}\n", c.name));
    }
    if c.local {
        o.push_str(&format!("pub type {} {{\n    pub v: u16,\n}}\n", c.name));
    }
    o.push_str(&format!("pub type O {{\n    pub f: {},\n}}\nimpl O {{\n    #[address(0x1000)]\n    pub fn g(&self, p: *const {}) -> *mut {};\n}}\n", c.name, c.name, c.name));
    modules.push(("o".to_string(), o));
    pipe::Input { modules }
}

/// (rule name, Rust path, size) selected by the scoping rules of the statement
fn model(c: &Case) -> Option<(&'static str, String, u64)> {
    // 1. last by-name import of an existing type
    for u in c.uses.iter().rev() {
        if *u >= 3 && c.defined[*u - 3] {
            let p = PROVIDERS[*u - 3];
            return Some(("type_import", format!("crate::{}::{}", p.0, c.name), p.2));
        }
    }
    // 2. built-in
    if c.name == "u32" {
        return Some(("builtin", "u32".to_string(), 4));
    }
    if c.name == "void" {
        return Some(("builtin", "::std::ffi::c_void".to_string(), 0));
    }
    // 3. same module
    if c.local {
        return Some(("same_module", format!("crate::o::{}", c.name), LOCAL_SIZE));
    }
    // 4. imported modules, earlier first
    for u in &c.uses {
        if *u < 3 && c.defined[*u] {
            let p = PROVIDERS[*u];
            return Some(("module_import", format!("crate::{}::{}", p.0, c.name), p.2));
        }
    }
    None
}

pub fn all_inputs(tier: &str) -> Vec<pipe::Input> {
    cases(tier).iter().map(input_of).collect()
}

pub fn run(tier: &str, only: Option<&Value>) -> i32 {
    let mut rep = Report::new("C11", tier);
    let all = cases(tier);
    rep.rule = "E1: modules a, b, n::c each define (or not) a type of the observed short name with sizes 4/8/16, the observer module with or without its own definition (size 2), every ordered use list of length <= 3 (4 thorough) over {use a, use b, use n::c, use a::N, use b::N, use n::c::N}, each also next to a type `Big<name>` (imported by name before or after the other imports, or defined locally) whose name merely ends in the observed one, for the names X, u32 and void (user types named like a built-in; `void` is the one built-in that is emitted under another path); oracle: precedence model -> expected crate path of the field / parameter / return type (syn) and the size pyxis used for the referring type; distinct = distinct (winning rule, number of candidates, name, verdict)".into();
    rep.assumptions = vec!["that the resolved size equals the compiled size is C02's claim; here the resolved size identifies which definition was used for layout".into()];
    let only_i = only.map(|l| (l["index"].as_u64().unwrap_or(0) as usize, l["ps"].as_u64().unwrap_or(8) as usize));
    for ps in [4usize, 8] {
        if matches!(only_i, Some((_, p)) if p != ps) {
            continue;
        }
        let idxs: Vec<usize> = match only_i {
            Some((i, _)) => vec![i],
            None => (0..all.len()).collect(),
        };
        let outs = util::par_map(idxs.len(), |j, _| {
            let c = &all[idxs[j]];
            let input = input_of(c);
            let v = pipe::run(&input, ps);
            let m = model(c);
            let viol: Option<(String, String)> = match (&v, &m) {
                (pipe::Verdict::Panic(p), _) => Some(("panic".into(), p.clone())),
                (pipe::Verdict::ParseErr(..), _) => Some(("harness_parse_error".into(), v.err_text())),
                (pipe::Verdict::Ok(_), None) => Some(("resolved_without_candidate".into(), "no rule selects a definition, yet the build succeeded".into())),
                (pipe::Verdict::Err(e), Some((rule, path, _))) => Some((format!("unresolved_despite:{rule}"), format!("expected {path}; {e}"))),
                (pipe::Verdict::Err(_), None) => None,
                (pipe::Verdict::Ok(b), Some((rule, path, size))) => {
                    let text = &b.files["o.rs"];
                    match synx::file_info(text) {
                        Err(e) => Some(("output_unreadable".into(), e)),
                        Ok(fi) => {
                            let f = fi.struct_("O").and_then(|s| s.fields.iter().find(|f| f.name == "f")).map(|f| f.ty.clone());
                            let g = fi.method("O", "g");
                            let pty = g.and_then(|g| g.inputs.iter().find(|(n, _)| n == "p").map(|(_, t)| t.clone()));
                            let rty = g.and_then(|g| g.output.clone());
                            let osize = b.items.get("o::O").map(|i| i.size as u64);
                            if f.as_deref() != Some(path.as_str()) {
                                Some((format!("field_binds_elsewhere:{rule}"), format!("expected `{path}`, emitted {f:?}")))
                            } else if pty.as_deref().map(|t| t.replace(' ', "")) != Some(format!("*const{path}")) || rty.as_deref().map(|t| t.replace(' ', "")) != Some(format!("*mut{path}")) {
                                Some((format!("signature_binds_elsewhere:{rule}"), format!("expected `*const {path}` / `*mut {path}`, emitted {pty:?} / {rty:?}")))
                            } else if osize != Some(*size) {
                                Some((format!("layout_uses_other_definition:{rule}"), format!("expected size {size}, resolved {osize:?}")))
                            } else {
                                None
                            }
                        }
                    }
                }
            };
            (input, v.class(), m.map(|m| m.0), viol)
        });
        for (j, (input, class, rule, viol)) in outs.into_iter().enumerate() {
            let c = &all[idxs[j]];
            rep.states += 1;
            rep.traces += 1;
            rep.evaluations += 1;
            rep.transitions += c.uses.len() as u64 + 1;
            let candidates = c.defined.iter().filter(|d| **d).count() + c.local as usize + (c.name == "u32" || c.name == "void") as usize;
            rep.count(&format!("rule_{}", rule.unwrap_or("none")), 1);
            if candidates >= 2 {
                rep.count("cases_with_two_or_more_candidates", 1);
            }
            rep.distinct_str(&format!("{:?}|{}|{}|{}", rule, candidates.min(3), c.name, class));
            if let Some((key, detail)) = viol {
                rep.violation(Violation { key, features: vec![format!("name:{}", c.name)], input, ps, detail, locator: json!({"space": "scoping", "index": idxs[j], "ps": ps}) });
            } else if j % 20011 == 0 {
                rep.sample(json!({"ps": ps, "input": input.render(), "verdict": class, "winning_rule": rule}));
            }
        }
    }
    if only.is_some() {
        for v in &rep.violations {
            println!("{}\n{}: {}", v.input.render(), v.key, v.detail);
        }
        let failed = !rep.violations.is_empty();
        println!("replay: {}", if failed { "still failing" } else { "passes" });
        return failed as i32;
    }
    rep.finish()
}
