//! Inheritance hierarchies: description space and reference model shared by C06 and C07.

use std::collections::{BTreeMap, BTreeSet};

use crate::{spec::*, util};

#[derive(Clone, Debug, PartialEq, Eq, Hash)]
pub struct HFn {
    pub name: String,
    pub public: bool,
    pub recv: Recv,
    pub addr: u64,
}

#[derive(Clone, Debug, PartialEq, Eq, Hash)]
pub struct HType {
    /// indices of earlier types, in field order
    pub bases: Vec<usize>,
    /// declares a vftable block
    pub block: bool,
    /// the type's new virtual function is public
    pub vpub: bool,
    pub fns: Vec<HFn>,
    /// an ordinary field is declared before the #[base] fields
    pub lead: bool,
}

#[derive(Clone, Debug, PartialEq, Eq, Hash)]
pub struct Hier {
    pub types: Vec<HType>,
}

pub fn tname(i: usize) -> String {
    format!("T{i}")
}
/// Name of base field k. The second base field carries a raw identifier: everything derived from a
/// field name (forwarding bodies, `<field>_<name>` renames, conversion paths) has to cope with it.
pub fn bname(k: usize) -> String {
    if k == 1 {
        "r#type".to_string()
    } else {
        format!("b{k}")
    }
}

/// The field name as it enters composed names (`type_f` for a function `f` reached through `r#type`).
pub fn bprefix(field: &str) -> &str {
    field.trim_start_matches("r#")
}

/// What calling a method ends up doing.
#[derive(Clone, Debug, PartialEq, Eq, PartialOrd, Ord)]
pub enum CallTarget {
    /// call of an absolute address
    Addr(u64),
    /// call through the vftable pointer found at this offset of the object, this slot
    Slot(u64, u64),
}

#[derive(Clone, Debug, PartialEq, Eq)]
pub struct Effect {
    pub target: CallTarget,
    /// offset of the sub-object the callee receives (None: the function has no receiver)
    pub receiver: Option<u64>,
    pub recv: Recv,
}

#[derive(Clone, Debug)]
pub struct Candidate {
    /// original name and the base field it comes through
    pub name: String,
    pub field: String,
    pub effect: Effect,
}

pub struct Model<'a> {
    pub h: &'a Hier,
    pub ps: u64,
}

impl<'a> Model<'a> {
    pub fn first_base(&self, i: usize) -> Option<usize> {
        self.h.types[i].bases.first().copied()
    }
    /// does type i have a vftable at all (own block or through its first base)?
    pub fn has_vftable(&self, i: usize) -> bool {
        self.h.types[i].block || self.first_base(i).is_some_and(|b| self.has_vftable(b))
    }
    /// does type i carry its own vftable pointer at offset 0?
    pub fn own_ptr(&self, i: usize) -> bool {
        self.h.types[i].block && !self.first_base(i).is_some_and(|b| self.has_vftable(b))
    }
    /// (function name, declared in type, public) per slot
    pub fn vlist(&self, i: usize) -> Vec<(String, usize, bool)> {
        let mut v = match self.first_base(i) {
            Some(b) if self.has_vftable(b) => self.vlist(b),
            _ => vec![],
        };
        if self.h.types[i].block {
            v.push((format!("v{i}"), i, self.h.types[i].vpub));
        }
        v
    }
    pub fn size(&self, i: usize) -> u64 {
        let t = &self.h.types[i];
        (if self.own_ptr(i) { self.ps } else { 0 }) + (if t.lead { self.ps } else { 0 }) + t.bases.iter().map(|b| self.size(*b)).sum::<u64>() + self.ps
    }
    /// offset of the vftable pointer the type's own virtual wrappers dispatch through
    pub fn vptr_offset(&self, i: usize) -> u64 {
        if self.own_ptr(i) {
            0
        } else {
            match self.first_base(i) {
                Some(b) => self.base_offset(i, 0) + self.vptr_offset(b),
                None => 0,
            }
        }
    }
    /// offset of base field k of type i
    pub fn base_offset(&self, i: usize, k: usize) -> u64 {
        let t = &self.h.types[i];
        (if self.own_ptr(i) { self.ps } else { 0 }) + (if t.lead { self.ps } else { 0 }) + t.bases[..k].iter().map(|b| self.size(*b)).sum::<u64>()
    }
    /// every transitive base: (field path, type, offset)
    pub fn dfs(&self, i: usize) -> Vec<(Vec<String>, usize, u64)> {
        let mut out = vec![];
        for (k, b) in self.h.types[i].bases.iter().enumerate() {
            let off = self.base_offset(i, k);
            out.push((vec![bname(k)], *b, off));
            for (p, t, o) in self.dfs(*b) {
                let mut path = vec![bname(k)];
                path.extend(p);
                out.push((path, t, off + o));
            }
        }
        out
    }
    /// offsets (within type i) of every vftable pointer, with the dynamic type owning it
    pub fn vptrs(&self, i: usize) -> Vec<(u64, usize)> {
        let mut out = vec![];
        if self.own_ptr(i) {
            out.push((0, i));
        }
        for (k, b) in self.h.types[i].bases.iter().enumerate() {
            let off = self.base_offset(i, k);
            for (o, t) in self.vptrs(*b) {
                out.push((off + o, t));
            }
        }
        out
    }
    /// The associated functions visible on type i as the statement prescribes, keyed by
    /// *original* name with the field they come through; plus own impl functions.
    /// Returns (own vftable wrappers, inherited candidates, own impl functions).
    pub fn members(&self, i: usize) -> (Vec<(String, Effect)>, Vec<Candidate>, Vec<(String, Effect)>) {
        let t = &self.h.types[i];
        let own_v: Vec<(String, Effect)> = self
            .vlist(i)
            .iter()
            .enumerate()
            .map(|(slot, (n, _, _))| (n.clone(), Effect { target: CallTarget::Slot(self.vptr_offset(i), slot as u64), receiver: Some(0), recv: Recv::Const }))
            .collect();
        let mut cands = vec![];
        for (k, b) in t.bases.iter().enumerate() {
            let off = self.base_offset(i, k);
            let shift = |e: &Effect| Effect {
                target: match &e.target {
                    CallTarget::Addr(a) => CallTarget::Addr(*a),
                    CallTarget::Slot(o, s) => CallTarget::Slot(off + o, *s),
                },
                receiver: e.receiver.map(|r| r + off),
                recv: e.recv,
            };
            // every public associated function of the base's type, including those it inherited
            for (name, eff, public) in self.associated(*b) {
                if public {
                    cands.push(Candidate { name, field: bname(k), effect: shift(&eff) });
                }
            }
            // public virtual functions of every base other than the first
            if k > 0 {
                for (slot, (n, _, public)) in self.vlist(*b).iter().enumerate() {
                    if *public {
                        let e = Effect { target: CallTarget::Slot(self.vptr_offset(*b), slot as u64), receiver: Some(0), recv: Recv::Const };
                        cands.push(Candidate { name: n.clone(), field: bname(k), effect: shift(&e) });
                    }
                }
            }
        }
        let own: Vec<(String, Effect)> = t
            .fns
            .iter()
            .map(|f| (f.name.clone(), Effect { target: CallTarget::Addr(f.addr), receiver: if f.recv == Recv::None { None } else { Some(0) }, recv: f.recv }))
            .collect();
        (own_v, cands, own)
    }
    /// associated functions of type i as seen from outside: (name on i, effect, public).
    /// Names follow the renaming rule of the statement, applied in field order.
    pub fn associated(&self, i: usize) -> Vec<(String, Effect, bool)> {
        let (own_v, cands, own) = self.members(i);
        let mut used: BTreeSet<String> = own_v.iter().map(|(n, _)| n.clone()).collect();
        let mut out = vec![];
        for c in cands {
            // `<field>_<name>` when the name is taken; if that is taken too, keep prefixing
            let mut name = c.name.clone();
            while used.contains(&name) {
                name = format!("{}_{}", bprefix(&c.field), name);
            }
            used.insert(name.clone());
            out.push((name, c.effect, true));
        }
        for (k, (n, e)) in own.into_iter().enumerate() {
            out.push((n, e, self.h.types[i].fns[k].public));
        }
        out
    }
    /// whether the description is one pyxis has to reject for a reason the model knows
    /// (an own impl function whose name is already taken by a vftable function or an inherited one)
    pub fn name_clash_with_own_impl(&self, i: usize) -> bool {
        let (own_v, cands, own) = self.members(i);
        let mut used: BTreeSet<String> = own_v.iter().map(|(n, _)| n.clone()).collect();
        for c in cands {
            let mut name = c.name.clone();
            while used.contains(&name) {
                name = format!("{}_{}", bprefix(&c.field), name);
            }
            used.insert(name);
        }
        let mut seen = BTreeSet::new();
        own.iter().any(|(n, _)| used.contains(n) || !seen.insert(n.clone()))
    }
    /// occurrences of each base type in the transitive hierarchy of i
    pub fn occurrences(&self, i: usize) -> BTreeMap<usize, Vec<u64>> {
        let mut m: BTreeMap<usize, Vec<u64>> = BTreeMap::new();
        for (_, t, o) in self.dfs(i) {
            m.entry(t).or_default().push(o);
        }
        m
    }
}

pub fn module_of(h: &Hier) -> ModuleS {
    let mut items = vec![];
    let probe = Model { h, ps: 8 };
    for (i, t) in h.types.iter().enumerate() {
        let mut ty = TypeS::new(&tname(i));
        if t.block {
            let funcs = probe
                .vlist(i)
                .iter()
                .map(|(n, _, public)| {
                    let mut f = FuncS::new(n);
                    f.public = *public;
                    f.recv = Recv::Const;
                    f
                })
                .collect();
            ty.vft = Some(VftS { size: None, funcs });
        }
        if t.lead {
            ty.fields.push(FieldS::new(&format!("lead{i}"), MTy::b("u8").cptr()));
        }
        for (k, b) in t.bases.iter().enumerate() {
            ty.fields.push(FieldS::new(&bname(k), MTy::user(&tname(*b))).based());
        }
        ty.fields.push(FieldS::new(&format!("own{i}"), MTy::b("u8").cptr()));
        items.push(Item::Type(ty));
        if !t.fns.is_empty() {
            let funcs = t
                .fns
                .iter()
                .map(|f| {
                    let mut fs = FuncS::new(&f.name);
                    fs.public = f.public;
                    fs.recv = f.recv;
                    fs.address = Some(f.addr as i128);
                    fs
                })
                .collect();
            items.push(Item::Impl { name: tname(i), funcs });
        }
    }
    ModuleS::new("m").with(items)
}

/// ordered lists of distinct earlier types, length 0..=max
fn base_lists(i: usize, max: usize) -> Vec<Vec<usize>> {
    let mut out = vec![vec![]];
    let mut frontier: Vec<Vec<usize>> = vec![vec![]];
    for _ in 0..max.min(i) {
        let mut next = vec![];
        for l in &frontier {
            for b in 0..i {
                if !l.contains(&b) {
                    let mut l2 = l.clone();
                    l2.push(b);
                    next.push(l2);
                }
            }
        }
        out.extend(next.iter().cloned());
        frontier = next;
    }
    out
}

/// All hierarchy shapes over n types: base lists x vftable-block flags (no impl functions).
pub fn shapes(n: usize) -> Vec<Hier> {
    shapes_limited(n, 3)
}

/// Like `shapes`, with at most `max_bases` bases per type.
pub fn shapes_limited(n: usize, max_bases: usize) -> Vec<Hier> {
    let lists: Vec<Vec<Vec<usize>>> = (0..n).map(|i| base_lists(i, max_bases)).collect();
    let radices: Vec<usize> = lists.iter().map(|l| l.len()).collect();
    let mut out = vec![];
    for idx in 0..util::product(&radices) {
        let d = util::decode(idx, &radices);
        for blocks in 0..(1u32 << n) {
            out.push(Hier {
                types: (0..n)
                    .map(|i| HType { bases: lists[i][d[i]].clone(), block: blocks >> i & 1 == 1, vpub: true, fns: vec![], lead: false })
                    .collect(),
            });
            // the same shape with an ordinary field in front of the youngest type's bases
            if n <= 3 && !lists[n - 1][d[n - 1]].is_empty() {
                let mut h = out.last().unwrap().clone();
                h.types[n - 1].lead = true;
                out.push(h);
            }
        }
    }
    out
}
