//! C18 — parsing is the inverse of printing for every well-formed module.
//! E1 over abstract modules x concrete-syntax styles; E3 (token sequences) supplies the
//! negative side: whatever the parser accepts must re-print to text that parses to the same
//! module, and whatever it rejects must carry a position inside the text.

use pyxis::grammar::*;
use serde_json::{json, Value};

use crate::{checks::tokens as tk, gprint::*, pipe, report::*, util};

type A = Attribute;

fn ident(s: &str) -> Ident {
    Ident(s.to_string())
}

fn simple_type_def(name: &str, stmts: Vec<TypeStatement>) -> ItemDefinition {
    ItemDefinition::new((Visibility::Public, name), TypeDefinition::new(stmts))
}

fn field(name: &str, ty: Type) -> TypeStatement {
    TypeStatement::field((Visibility::Public, name), ty)
}

/// all types of nesting depth <= d
fn types(d: usize) -> Vec<Type> {
    let leaves = vec![Type::ident("u32"), Type::ident("Shared<Inner>"), Type::Unknown(4), Type::Unknown(0)];
    let mut all = leaves.clone();
    let mut frontier = leaves;
    for _ in 0..d {
        let mut next = vec![];
        for t in &frontier {
            next.push(t.clone().const_pointer());
            next.push(t.clone().mut_pointer());
            next.push(t.clone().array(3));
            next.push(t.clone().array(0));
        }
        all.extend(next.iter().cloned());
        frontier = next;
    }
    all
}

fn attr_alphabet() -> Vec<A> {
    vec![
        A::Ident(ident("copyable")),
        A::Ident(ident("base")),
        A::Ident(ident("r#type")),
        A::Function(ident("size"), vec![Expr::IntLiteral(16)]),
        A::Function(ident("address"), vec![Expr::IntLiteral(-1)]),
        A::Function(ident("calling_convention"), vec![Expr::StringLiteral("thiscall".into())]),
        A::Function(ident("empty"), vec![]),
        A::Function(ident("two"), vec![Expr::IntLiteral(1), Expr::Ident(ident("x"))]),
        A::Assign(ident("doc"), Expr::StringLiteral(" a doc line".into())),
        A::Assign(ident("doc"), Expr::StringLiteral("".into())),
        A::Assign(ident("doc"), Expr::StringLiteral("quote \" backslash \\ done".into())),
        A::Assign(ident("key"), Expr::IntLiteral(7)),
        A::Assign(ident("key"), Expr::Ident(ident("value"))),
    ]
}

/// One module exercising every attribute position; `pos` selects where `attrs` goes.
const ATTR_POSITIONS: usize = 11;
fn module_with_attrs(pos: usize, attrs: Attributes) -> Module {
    let a = |p: usize| if p == pos { attrs.clone() } else { Attributes::default() };
    let vfunc = Function::new((Visibility::Public, "v"), [Argument::ConstSelf]).with_attributes(a(4));
    let ifunc = Function::new((Visibility::Private, "f"), [Argument::MutSelf, Argument::named("x", Type::ident("u32"))])
        .with_attributes(a(6))
        .with_return_type(Type::ident("u32").mut_pointer());
    let td = TypeDefinition::new([
        TypeStatement::vftable([vfunc]).with_attributes(a(3)),
        field("x", Type::ident("u32")).with_attributes(a(2)),
    ])
    .with_attributes(a(1));
    let ed = EnumDefinition::new(
        Type::ident("u8"),
        [EnumStatement::field("A").with_attributes(a(8)), EnumStatement::field_with_expr("B", Expr::IntLiteral(3))],
        a(7),
    );
    Module::new()
        .with_attributes(a(0))
        .with_definitions([ItemDefinition::new((Visibility::Public, "T"), td), ItemDefinition::new((Visibility::Private, "E"), ed)])
        .with_impls([FunctionBlock::new("T", [ifunc]).with_attributes(a(5))])
        .with_extern_types([(ident("Ext<u32>"), a(9))])
        .with_extern_values([ExternValue::new(Visibility::Public, "g", Type::ident("u32").const_pointer(), a(10))])
}

const TYPE_POSITIONS: usize = 5;
fn module_with_type(pos: usize, ty: Type) -> Module {
    let t = |p: usize| if p == pos { ty.clone() } else { Type::ident("u8") };
    let f = Function::new((Visibility::Public, "f"), [Argument::ConstSelf, Argument::named("a", t(1))]).with_return_type(t(2));
    Module::new()
        .with_definitions([
            simple_type_def("T", vec![field("x", t(0)), field("_", Type::ident("u8"))]),
            ItemDefinition::new((Visibility::Public, "E"), EnumDefinition::new(t(4), [EnumStatement::field("A")], [])),
        ])
        .with_impls([FunctionBlock::new("T", [f])])
        .with_extern_values([ExternValue::new(Visibility::Private, "g", t(3), [A::address(16)])])
}

fn signatures() -> Vec<Function> {
    let mut out = vec![];
    let args_alpha: Vec<Argument> = vec![
        Argument::ConstSelf,
        Argument::MutSelf,
        Argument::named("a", Type::ident("u32")),
        Argument::named("b", Type::ident("u8").const_pointer()),
        Argument::named("r#in", Type::ident("u8").array(2)),
    ];
    for vis in [Visibility::Public, Visibility::Private] {
        for ret in [None, Some(Type::ident("u32")), Some(Type::ident("T").mut_pointer())] {
            for len in 0..=3usize {
                for idx in 0..args_alpha.len().pow(len as u32) {
                    let d = util::decode(idx, &vec![args_alpha.len(); len]);
                    let mut f = Function::new((vis, "f"), d.iter().map(|&i| args_alpha[i].clone()).collect::<Vec<_>>());
                    f.return_type = ret.clone();
                    out.push(f);
                }
            }
        }
    }
    out
}

fn item_kinds(m: &mut Module, kind: usize, n: usize) {
    let name = format!("N{n}");
    match kind {
        0 => m.uses.push(ItemPath::from(format!("a::b{n}::Type<X>").as_str())),
        1 => m.extern_types.push((ident(&name), [A::size(4), A::align(4)].into())),
        2 => m.extern_values.push(ExternValue::new(Visibility::Public, &name.to_lowercase(), Type::ident("u32"), [A::address(0x1000)])),
        3 => m.definitions.push(simple_type_def(&name, vec![])),
        4 => m.definitions.push(ItemDefinition::new((Visibility::Public, name.as_str()), EnumDefinition::new(Type::ident("u32"), [], []))),
        5 => m.impls.push(FunctionBlock::new(name.as_str(), [])),
        6 => m.backends.push(Backend::new("rust").with_prologue(format!("use x{n};"))),
        7 => m.backends.push(Backend::new("cpp").with_epilogue("text with \"# inside\nand a second line")),
        _ => m.backends.push(Backend::new("rust").with_prologue("p").with_epilogue("e")),
    }
}

const BOUNDARY_INTS: &[i128] = &[0, 1, 2, 3, 7, 8, 255, 256, 65535, 65536, 2147483647, 2147483648, 4294967295, 4294967296, 9223372036854775807, -1, -2, -2147483648, -9223372036854775808];

fn modules(tier: &str) -> Vec<(&'static str, Module)> {
    let mut out = vec![];
    let depth = if tier == "thorough" { 5 } else { 4 };
    for pos in 0..TYPE_POSITIONS {
        for t in types(depth) {
            out.push(("type_nesting", module_with_type(pos, t)));
        }
    }
    let alpha = attr_alphabet();
    for pos in 0..ATTR_POSITIONS {
        out.push(("attributes", module_with_attrs(pos, Attributes::default())));
        for a in &alpha {
            out.push(("attributes", module_with_attrs(pos, vec![a.clone()].into())));
            for b in &alpha {
                out.push(("attributes", module_with_attrs(pos, vec![a.clone(), b.clone()].into())));
            }
        }
    }
    for f in signatures() {
        // two different functions per block: their order is part of the module
        let mut g = f.clone();
        g.name = ident("g");
        g.return_type = None;
        out.push((
            "signatures",
            Module::new()
                .with_definitions([simple_type_def("T", vec![TypeStatement::vftable([f.clone(), g.clone()]), field("x", Type::ident("u32")), field("y", Type::ident("u8").const_pointer())])])
                .with_impls([FunctionBlock::new("T", [g, f])]),
        ));
    }
    for len in 0..=3usize {
        for idx in 0..9usize.pow(len as u32) {
            let d = util::decode(idx, &vec![9; len]);
            let mut m = Module::new();
            for (n, k) in d.iter().enumerate() {
                item_kinds(&mut m, *k, n);
            }
            out.push(("item_sequences", m));
        }
    }
    // backend blocks: every combination of absent / empty / one-line / multi-line prologue and epilogue
    let texts: [Option<&str>; 4] = [None, Some(""), Some("use a::b;"), Some("line one\n\n    indented \"quoted\"\nlast")];
    for name in ["rust", "cpp"] {
        for p in texts {
            for e in texts {
                let mut b = Backend::new(name);
                b.prologue = p.map(String::from);
                b.epilogue = e.map(String::from);
                out.push(("item_sequences", Module::new().with_backends([b.clone()])));
                // ... also between other backends, where the block's end decides what follows
                out.push(("item_sequences", Module::new().with_backends([Backend::new("rust").with_prologue("first"), b, Backend::new("rust").with_epilogue("last")])));
            }
        }
    }
    for v in BOUNDARY_INTS {
        let v = *v as isize;
        out.push((
            "integers",
            Module::new().with_definitions([
                ItemDefinition::new(
                    (Visibility::Public, "T"),
                    TypeDefinition::new([field("x", Type::ident("u8")).with_attributes([A::integer_fn("address", v)])]).with_attributes([A::integer_fn("size", v), A::Assign(ident("k"), Expr::IntLiteral(v))]),
                ),
                ItemDefinition::new((Visibility::Public, "E"), EnumDefinition::new(Type::ident("i64"), [EnumStatement::field_with_expr("A", Expr::IntLiteral(v))], [])),
            ]),
        ));
        if v >= 0 {
            out.push((
                "integers",
                Module::new().with_definitions([simple_type_def("T", vec![field("x", Type::ident("u8").array(v as usize)), field("y", Type::Unknown(v as usize))])]),
            ));
        }
    }
    out
}

fn first_diff(a: &str, b: &str) -> String {
    let i = a.chars().zip(b.chars()).position(|(x, y)| x != y).unwrap_or(a.len().min(b.len()));
    let lo = i.saturating_sub(80);
    format!("…{} <> …{}", &a[lo..(i + 120).min(a.len())], &b[lo..(i + 120).min(b.len())])
}

pub fn run(tier: &str, only: Option<&Value>) -> i32 {
    let mut rep = Report::new("C18", tier);
    let all = modules(tier);
    let cover = covering_styles();
    rep.rule = format!("E1: abstract modules built with pyxis's own grammar constructors — every type of nesting depth <= {} over {{ident, generic ident, unknown<n>, *const, *mut, [_; n]}} in each of five type positions; every attribute list of length <= 2 over a 13-attribute alphabet (all three shapes; int / string / ident arguments; escapes) in each of eleven attribute positions; every function signature (visibility x 0..3 arguments incl. receivers, `_` and raw identifiers x return type) in vftable and impl blocks; every item sequence of length <= 3 over nine item forms; boundary integers in every integer position — each printed by an independent printer in a covering set of 10 styles (5 separators incl. block and line comments between all tokens, trailing commas, /// vs #[doc], merged vs split attribute lists, decimal / hex / underscore integers, backend block forms, grouped vs interleaved items); the integer and item-sequence families in all {} styles. parse_str(print(m, style)) == m. Negative side (E3): all token sequences up to length L over a 40-token alphabet: accepted ones must re-print and re-parse to the same module, rejected ones must report a position inside the text. distinct = distinct (family, abstract module)", if tier == "thorough" { 5 } else { 4 }, N_STYLES);
    let only_i = only.and_then(|l| if l["space"] == "modules" { Some((l["index"].as_u64().unwrap_or(0) as usize, l["style"].as_u64().unwrap_or(0) as usize)) } else { None });
    let only_tok = only.and_then(|l| if l["space"] == "tokens" { l["tokens"].as_array().map(|a| a.iter().map(|x| x.as_u64().unwrap_or(0) as usize).collect::<Vec<_>>()) } else { None });
    if only.is_none() || only_i.is_some() {
        let idxs: Vec<usize> = match only_i {
            Some((i, _)) => vec![i],
            None => (0..all.len()).collect(),
        };
        let outs = util::par_map(idxs.len(), |j, _| {
            let (fam, m) = &all[idxs[j]];
            let styles: Vec<(usize, Style)> = if let Some((_, s)) = only_i {
                vec![(s, if s >= 1000 { cover[s - 1000] } else { style(s) })]
            } else if *fam == "integers" || *fam == "item_sequences" {
                (0..N_STYLES).map(|s| (s, style(s))).collect()
            } else {
                cover.iter().enumerate().map(|(k, s)| (1000 + k, *s)).collect()
            };
            let mut n = 0u64;
            let mut viol = None;
            for (sid, st) in styles {
                n += 1;
                let text = print(m, st);
                proc_macro2::extra::invalidate_current_thread_spans();
                let r = std::panic::catch_unwind(|| pyxis::parser::parse_str(&text));
                match r {
                    Err(_) => {
                        viol = Some((sid, "panic".to_string(), "parser panicked".to_string(), text));
                        break;
                    }
                    Ok(Err(e)) => {
                        viol = Some((sid, "printed_module_rejected".to_string(), format!("{e} at {:?}", e.span().start()), text));
                        break;
                    }
                    Ok(Ok(parsed)) => {
                        if &parsed != m {
                            viol = Some((sid, "round_trip_differs".to_string(), first_diff(&format!("{m:?}"), &format!("{parsed:?}")), text));
                            break;
                        }
                    }
                }
            }
            (n, viol)
        });
        for (j, (n, viol)) in outs.into_iter().enumerate() {
            let (fam, m) = &all[idxs[j]];
            rep.states += 1;
            rep.transitions += n;
            rep.traces += n;
            rep.evaluations += n;
            rep.count(&format!("family_{fam}"), 1);
            rep.distinct_str(&format!("{fam}{m:?}"));
            if let Some((sid, key, detail, text)) = viol {
                rep.violation(Violation { key, features: vec![format!("family:{fam}")], input: pipe::Input::single(text), ps: 0, detail, locator: json!({"space": "modules", "index": idxs[j], "style": sid}) });
            } else if j % 2503 == 0 {
                rep.sample(json!({"family": fam, "style": "covering[3]", "text": print(m, cover[3])}));
            }
        }
    }
    if only.is_none() {
        tk::explore_mutants(&mut rep);
    }
    if only.is_none() || only_tok.is_some() {
        tk::explore(&mut rep, tier, "C18", only_tok);
    }
    if only.is_some() {
        for v in &rep.violations {
            println!("{}\n{}: {}", v.input.render(), v.key, v.detail);
        }
        let failed = !rep.violations.is_empty();
        println!("replay: {}", if failed { "still failing" } else { "passes" });
        return failed as i32;
    }
    rep.finish()
}
