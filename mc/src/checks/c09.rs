//! C09 — the output is a deterministic function of the input set.
//! E2: all module-addition orders x all resolution schedules (per-pass worklist permutations,
//! state de-duplication) on the real resolver, for a corpus of order-sensitive input sets.

use serde_json::{json, Value};

use crate::{checks::{graphs, hier}, pipe::{self, Input}, report::*, sched, spec::*, util};

#[derive(Clone, Debug)]
pub struct Corpus {
    pub input: Input,
    pub features: Vec<String>,
}

const REFS: &[&str] = &["field_ptr", "field_value", "impl_param", "vfunc_param", "impl_return", "extern_value", "enum_in_sig"];

fn referrer(kind: &str, i: usize) -> Vec<Item> {
    let name = format!("R{i}");
    let vft = MTy::user("FooVftable");
    let mut t = TypeS::new(&name);
    let mut items = vec![];
    match kind {
        "field_ptr" => {
            t.fields = vec![FieldS::new("p", vft.cptr())];
            items.push(Item::Type(t));
        }
        "field_value" => {
            t.fields = vec![FieldS::new("v", vft)];
            items.push(Item::Type(t));
        }
        "impl_param" => {
            t.fields = vec![FieldS::new("x", MTy::b("u32"))];
            let mut f = FuncS::new("g");
            f.address = Some(0x10 + i as i128);
            f.args = vec![("v".into(), vft.cptr())];
            items.push(Item::Type(t));
            items.push(Item::Impl { name, funcs: vec![f] });
        }
        "vfunc_param" => {
            let mut f = FuncS::new("g");
            f.args = vec![("v".into(), vft.cptr())];
            t.vft = Some(VftS { size: None, funcs: vec![f] });
            items.push(Item::Type(t));
        }
        "impl_return" => {
            t.fields = vec![FieldS::new("x", MTy::b("u32"))];
            let mut f = FuncS::new("g");
            f.address = Some(0x20 + i as i128);
            f.ret = Some(vft.cptr());
            items.push(Item::Type(t));
            items.push(Item::Impl { name, funcs: vec![f] });
        }
        "extern_value" => {
            items.push(Item::ExternValue { name: format!("gv{i}"), public: true, ty: vft.cptr(), address: Some(0x1000) });
        }
        "enum_in_sig" => {
            // a signature naming an enum that may still be unresolved when the type is built
            t.fields = vec![FieldS::new("x", MTy::b("u32"))];
            let mut f = FuncS::new("g");
            f.address = Some(0x30 + i as i128);
            f.args = vec![("e".into(), MTy::user("Late"))];
            f.ret = Some(MTy::user("Late"));
            items.push(Item::Type(t));
            items.push(Item::Impl { name, funcs: vec![f] });
            let mut e = EnumS::new("Late", "u32");
            e.variants = vec![VariantS { name: "A".into(), value: None, default: false, doc: vec![] }];
            items.push(Item::Enum(e));
        }
        _ => unreachable!(),
    }
    items
}

fn foo() -> Item {
    let mut t = TypeS::new("Foo");
    let mut f = FuncS::new("v");
    f.recv = Recv::Const;
    t.vft = Some(VftS { size: None, funcs: vec![f] });
    t.fields = vec![FieldS::new("a", MTy::b("u32"))];
    Item::Type(t)
}

fn derived(level: usize) -> Vec<Item> {
    let mut out = vec![];
    if level >= 1 {
        let mut d = TypeS::new("D");
        d.fields = vec![FieldS::new("b", MTy::user("Foo")).based(), FieldS::new("y", MTy::b("u32"))];
        out.push(Item::Type(d));
    }
    if level >= 2 {
        let mut dd = TypeS::new("DD");
        let mut f = FuncS::new("v");
        f.recv = Recv::Const;
        let mut g = FuncS::new("w");
        g.recv = Recv::Const;
        dd.vft = Some(VftS { size: None, funcs: vec![f, g] });
        dd.fields = vec![FieldS::new("d", MTy::user("D")).based()];
        out.push(Item::Type(dd));
    }
    out
}

pub fn corpus(tier: &str) -> Vec<Corpus> {
    let mut out = vec![];
    let max_refs = if tier == "thorough" { 3 } else { 2 };
    let nk = REFS.len();
    for foo_loc in ["same", "use_module", "use_type"] {
        for mask in 1u32..(1 << nk) {
            if mask.count_ones() as usize > max_refs {
                continue;
            }
            for dl in 0..=2usize {
                if dl > 0 && mask.count_ones() as usize + dl > (if tier == "thorough" { 5 } else { 3 }) {
                    continue;
                }
                for shadow in [false, true] {
                    if shadow && foo_loc != "use_type" {
                        continue;
                    }
                    let mut ref_items = vec![];
                    let mut features = vec![format!("foo:{foo_loc}")];
                    for (i, k) in REFS.iter().enumerate() {
                        if mask >> i & 1 == 1 {
                            ref_items.extend(referrer(k, i));
                            features.push(format!("ref:{k}"));
                        }
                    }
                    if dl > 0 {
                        features.push(format!("derived:{dl}"));
                    }
                    if shadow {
                        features.push("shadow".into());
                    }
                    let mods = match foo_loc {
                        "same" => {
                            let mut items = vec![foo()];
                            items.extend(derived(dl));
                            items.extend(ref_items);
                            vec![ModuleS::new("m").with(items)]
                        }
                        _ => {
                            let mut a = vec![foo()];
                            a.extend(derived(dl));
                            let mut b = vec![Item::Use(if foo_loc == "use_module" { "a".into() } else { "a::FooVftable".into() })];
                            if shadow {
                                let mut t = TypeS::new("FooVftable");
                                t.fields = vec![FieldS::new("z", MTy::b("u64"))];
                                b.push(Item::Type(t));
                            }
                            b.extend(ref_items);
                            vec![ModuleS::new("a").with(a), ModuleS::new("b").with(b)]
                        }
                    };
                    out.push(Corpus { input: to_input(&mods), features });
                }
            }
        }
    }
    // the vftable owner itself depends on the type that refers to its generated vftable struct
    for (owner_field, ref_field) in [("pub r: R,", "pub v: FooVftable,"), ("pub r: [R; 2],", "pub v: FooVftable,"), ("pub r: R,", "pub v: *const FooVftable,"), ("pub r: R,", "pub v: [FooVftable; 2],")] {
        for owner_first in [true, false] {
            let foo = format!("pub type Foo {{\n    vftable {{\n        pub fn v(&self);\n    }},\n    {owner_field}\n}}\n");
            let r = format!("pub type R {{\n    {ref_field}\n    pub pad: *const u8,\n}}\n");
            let text = if owner_first { format!("{foo}{r}") } else { format!("{r}{foo}") };
            out.push(Corpus { input: Input::single(text), features: vec!["owner_embeds_referrer".into()] });
        }
    }
    // a module whose path equals the path of a type of its parent module
    for child in ["pub type Inner {\n    pub x: u32,\n}\n", ""] {
        out.push(Corpus {
            input: Input { modules: vec![("ui".into(), "pub type Widget {\n    pub x: u32,\n}\n".into()), ("ui::Widget".into(), child.into()), ("ui::other".into(), "pub type O {\n    pub x: u32,\n}\n".into())] },
            features: vec!["module_path_equals_type_path".into()],
        });
    }
    // a derived type with its own vftable block whose first base is placed by an explicit address
    for (addr, declared_first) in [(0, true), (0, false), (8, true), (8, false)] {
        let base = "pub type Base {\n    vftable {\n        pub fn v(&self);\n    },\n    pub a: *const u8,\n}\n";
        let derived = format!("pub type Derived {{\n    vftable {{\n        pub fn v(&self);\n        pub fn w(&self);\n    }},\n    #[base, address({addr})]\n    pub base: Base,\n    pub b: *const u8,\n}}\n");
        let text = if declared_first { format!("{base}{derived}") } else { format!("{derived}{base}") };
        out.push(Corpus { input: Input::single(text), features: vec!["addressed_first_base".into()] });
    }
    // a name supplied by several imported modules / by-name imports: the binding (C11) must not
    // depend on hash seeds either; these are built repeatedly (no schedule can expose them)
    for uses in [vec!["use a;", "use b;"], vec!["use b;", "use a;"], vec!["use a;", "use b;", "use c;"], vec!["use a::X;", "use b::X;"], vec!["use c::X;", "use a::X;", "use b::X;"], vec!["use a;", "use b::X;", "use c;"]] {
        let mk = |n: usize| format!("pub type X {{\n    pub v: [u32; {n}],\n}}\n");
        let o = format!("{}\npub type O {{\n    pub x: X,\n    pub p: *const X,\n}}\nimpl O {{\n    #[address(0x1000)]\n    pub fn g(&self, x: *mut X) -> *const X;\n}}\n", uses.join("\n"));
        out.push(Corpus { input: Input { modules: vec![("a".into(), mk(1)), ("b".into(), mk(2)), ("c".into(), mk(4)), ("o".into(), o.clone())] }, features: vec!["ambiguous_imports".into()] });
        // the same with an extern value of that type, and with a local definition of the name as well
        let ev = "#[address(0x2000)]\npub extern gx: *const X;\n#[address(0x2008)]\npub extern gy: X;\n";
        out.push(Corpus { input: Input { modules: vec![("a".into(), mk(1)), ("b".into(), mk(2)), ("o".into(), format!("{o}{ev}"))] }, features: vec!["ambiguous_imports".into()] });
        out.push(Corpus { input: Input { modules: vec![("a".into(), mk(1)), ("b".into(), mk(2)), ("o".into(), format!("{o}{ev}{}", mk(3)))] }, features: vec!["ambiguous_imports".into()] });
    }
    // items of one module whose names differ only in case, in a digit or in an underscore: any ordering of the
    // output that ties on such names must not fall back on hash order (built repeatedly)
    for names in [vec!["Rgb", "RGB", "rgb"], vec!["Vec3", "VEC3", "Vec3_", "vec3", "Vec30"], vec!["A", "a", "B", "b", "AB", "Ab", "aB", "ab"]] {
        let mut text = String::new();
        for (i, n) in names.iter().enumerate() {
            match i % 3 {
                0 => text.push_str(&format!("pub type {n} {{\n    pub x: u32,\n}}\nimpl {n} {{\n    #[address({:#x})]\n    pub fn f(&self);\n}}\n", 0x1000 + 16 * i)),
                1 => text.push_str(&format!("pub type {n} {{\n    vftable {{\n        pub fn v(&self);\n    }},\n    pub x: *const u8,\n}}\n")),
                _ => text.push_str(&format!("pub enum {n}: u32 {{\n    P,\n    Q,\n}}\n")),
            }
            text.push_str(&format!("#[address({:#x})]\npub extern g_{n}: u32;\n#[size(4), align(4)]\nextern type Ext{n};\n", 0x2000 + 8 * i));
        }
        out.push(Corpus { input: Input::single(text.clone()), features: vec!["ambiguous_imports".into(), "case_twins".into(), "repeated_builds_only".into()] });
        // ... and spread over two modules that import each other's
        out.push(Corpus { input: Input { modules: vec![("lib".into(), text.clone()), ("LIB".into(), text.replace("0x1", "0x3").replace("0x2", "0x4")), ("user".into(), format!("use lib;\nuse LIB;\npub type U {{\n    pub p: *const {},\n}}\n", names[0]))] }, features: vec!["ambiguous_imports".into(), "case_twins".into(), "repeated_builds_only".into()] });
    }
    // inheritance shapes (repeated and diamond bases, vftables at any level): what is emitted per
    // ancestor (conversions, ambiguity notices, re-exposed members) must not depend on hash seeds
    for n in 2..=4 {
        for h in hier::shapes_limited(n, if n == 4 && tier != "thorough" { 2 } else { 3 }) {
            if h.types.iter().any(|t| t.lead) {
                continue;
            }
            let mut features = vec!["hierarchy".to_string()];
            if n == 4 && tier != "thorough" {
                // quick: only shapes in which every type is an ancestor of the youngest one (the others are
                // 3-type shapes plus a bystander), built repeatedly but not schedule-explored
                let mut anc = vec![false; n];
                let mut stack = vec![n - 1];
                while let Some(t) = stack.pop() {
                    if !std::mem::replace(&mut anc[t], true) {
                        stack.extend(h.types[t].bases.iter().copied());
                    }
                }
                if anc.iter().any(|a| !a) {
                    continue;
                }
                features.push("repeated_builds_only".into());
            }
            out.push(Corpus { input: to_input(&[hier::module_of(&h)]), features });
        }
    }
    // dependency graphs (by-value chains, cycles, pointer cycles, undefined names)
    for g in graphs::graph_inputs(tier, true) {
        out.push(Corpus { input: g.input, features: vec!["graph".into()] });
    }
    out
}

pub fn add_orders(n_modules: usize) -> Vec<Vec<usize>> {
    util::permutations(n_modules)
}

pub fn run(tier: &str, only: Option<&Value>) -> i32 {
    let mut rep = Report::new("C09", tier);
    let all = corpus(tier);
    rep.rule = "E2: for every input set of the corpus (a vftable owner whose generated FooVftable item appears late, referrers naming it from fields / signatures / extern values / imports, derived types, inheritance shapes of up to 4 types (at most two bases per type at 4 in quick) with diamond and repeated ancestors, dependency graphs, modules whose items differ only in the case of their names): all module-addition orders x all per-pass permutations of the resolution worklist, BFS with de-duplication of pass-boundary registry states, every execution on the real SemanticState::build via the cfg(pyxis_verif) hook; plus each input built twice more in-process without scheduler (fresh hash seeds; 24 times for ambiguous imports, 12 times for inheritance shapes). Invariant: one outcome class and byte-identical files. distinct = input sets with more than one reachable pass-boundary state".into();
    rep.assumptions = vec![
        "the hook permutes the worklist at pass boundaries only and keeps it stable inside a pass, as a HashMap does between rehashes".into(),
        "the two other HashMap iteration sites (extern-value resolution, file writing) cannot change the compared outcome; they are exercised through add-order permutation and repeated builds".into(),
    ];
    let idxs: Vec<usize> = match only {
        Some(l) => vec![l["index"].as_u64().unwrap_or(0) as usize],
        None => (0..all.len()).collect(),
    };
    let cap: u64 = if tier == "thorough" { 2_000_000 } else { 200_000 };
    for ps in [4usize, 8] {
        if matches!(only, Some(l) if l["ps"].as_u64() != Some(ps as u64)) {
            continue;
        }
        let outs = util::par_map(idxs.len(), |j, _| {
            let c = &all[idxs[j]];
            let orders = add_orders(c.input.modules.len());
            let mut ex = if c.features.iter().any(|f| f == "repeated_builds_only") { sched::Exploration::default() } else { sched::explore(&c.input, ps, &orders, cap) };
            // supplementary: plain builds with fresh RandomState
            let reps = if c.features.iter().any(|f| f == "ambiguous_imports") { 24 } else if c.features.iter().any(|f| f == "hierarchy") { 12 } else { 2 };
            for _ in 0..reps {
                for o in &orders {
                    let inp = Input { modules: o.iter().map(|&i| c.input.modules[i].clone()).collect() };
                    let v = pipe::run(&inp, ps);
                    ex.executions += 1;
                    ex.outcomes.entry(sched::outcome_key(&v)).or_insert_with(|| (o.clone(), vec![], format!("(unscheduled build) {}", v.err_text())));
                }
            }
            ex
        });
        for (j, ex) in outs.into_iter().enumerate() {
            let i = idxs[j];
            let c = &all[i];
            rep.states += ex.states;
            rep.transitions += ex.transitions;
            rep.traces += ex.executions;
            rep.evaluations += ex.executions;
            rep.count("input_sets", 1);
            if ex.states > 1 {
                rep.count("input_sets_with_more_than_one_state", 1);
                rep.distinct.insert(util::fnv(&c.input.render()) ^ ps as u64);
            }
            if ex.max_passes > 1 {
                rep.count("input_sets_with_more_than_one_pass", 1);
            }
            let mw = rep.counters.get("max_worklist").copied().unwrap_or(0).max(ex.max_worklist as u64);
            rep.counters.insert("max_worklist".into(), mw);
            if ex.capped {
                rep.caps.push(format!("input set {i}: execution cap {cap} hit"));
            }
            // The harness makes every scheduling choice itself and replays it verbatim: if the
            // same input under the same schedule behaves differently on a second execution, the
            // build depends on something else (hash seeds) — which is what C09 forbids.
            if !ex.errors.is_empty() {
                rep.violation(Violation { key: "different_behaviour_under_identical_schedule".into(), features: c.features.clone(), input: c.input.clone(), ps, detail: ex.errors.iter().take(5).cloned().collect::<Vec<_>>().join("\n"), locator: json!({"space": "c09_corpus", "index": i, "ps": ps}) });
            }
            if ex.outcomes.len() > 1 {
                let mut detail = format!("{} different outcomes for one input set:\n", ex.outcomes.len());
                for (k, (order, hist, err)) in &ex.outcomes {
                    detail.push_str(&format!("  outcome {} <- add order {:?}, schedule {:?} {}\n", k.split('|').next().unwrap(), order, hist, err.lines().next().unwrap_or("")));
                }
                let classes: Vec<&str> = ex.outcomes.keys().map(|k| k.split('|').next().unwrap()).collect();
                let key = if classes.iter().all(|c| *c == "ok") { "output_differs_by_order" } else { "verdict_differs_by_order" };
                rep.violation(Violation { key: key.into(), features: c.features.clone(), input: c.input.clone(), ps, detail, locator: json!({"space": "c09_corpus", "index": i, "ps": ps}) });
            } else if j % 97 == 0 {
                rep.sample(json!({"ps": ps, "input": c.input.render(), "states": ex.states, "transitions": ex.transitions, "outcome": ex.outcomes.keys().next().map(|k| k.split('|').next().unwrap().to_string())}));
            }
        }
    }
    if only.is_some() {
        for v in &rep.violations {
            println!("{}\n{}", v.input.render(), v.detail);
        }
        let failed = !rep.violations.is_empty();
        println!("replay: {}", if failed { "still failing" } else { "passes" });
        return failed as i32;
    }
    rep.finish()
}
