//! C03 — a type description is accepted exactly when it is realisable.
//! E1: bounded-exhaustive over single-type descriptions; oracle = the model's `layout`.

use serde_json::{json, Value};

use crate::{model::*, pipe, report::*, spaces::LayoutSpace, spec::*, util};

struct Outcome {
    accepted: bool,
    rejects: Vec<Reject>,
    viol: Option<(String, String)>,
    k: usize,
    text: Option<String>,
}

fn eval(space: &LayoutSpace, index: usize, ps: usize, want_text: bool) -> Outcome {
    let case = space.get(index, ps as u64);
    let input = to_input(&space.modules_for(&case.ty));
    let v = pipe::run_with(&input, ps, false);
    // the verdict must not depend on the order in which the attributes are written
    let n_attrs = Printer::default().type_attrs(&case.ty).len();
    if n_attrs >= 2 {
        let mods = space.modules_for(&case.ty);
        let rev = pipe::Input { modules: mods.iter().map(|m| (m.path.clone(), Printer { style: NumStyle::Dec, reverse_type_attrs: true, docs_after_attrs: false, attr_order: 0 }.module(m))).collect() };
        let v2 = pipe::run_with(&rev, ps, false);
        if v2.is_ok() != v.is_ok() {
            return Outcome {
                accepted: v.is_ok(),
                rejects: vec![],
                viol: Some(("verdict_depends_on_attribute_order".to_string(), format!("as written: {}; attributes reversed: {}\n{}", v.class(), v2.class(), rev.modules[0].1))),
                k: case.k,
                text: Some(input.modules[0].1.clone()),
            };
        }
    }
    let lay = layout(&case.ty, ps as u64, &space.env, case.ty.vft.is_some());
    let model_ok = lay.rejects.is_empty();
    let mut viol = None;
    match &v {
        pipe::Verdict::Ok(b) => {
            if !model_ok {
                viol = Some((
                    format!("accepted_unrealisable:{}", lay.rejects[0].name()),
                    format!("pyxis accepted a description the model rejects for {:?}", lay.rejects.iter().map(|r| r.name()).collect::<Vec<_>>()),
                ));
            } else if let Some(it) = b.items.get("m::T") {
                if it.size as u64 != lay.size || it.alignment as u64 != lay.align {
                    viol = Some((
                        "resolved_size_or_alignment_differs_from_model".to_string(),
                        format!("model size/align {}/{} but pyxis resolved {}/{}", lay.size, lay.align, it.size, it.alignment),
                    ));
                }
            } else {
                viol = Some(("accepted_without_item".to_string(), "m::T missing from registry".to_string()));
            }
        }
        pipe::Verdict::Err(e) => {
            if model_ok {
                viol = Some(("rejected_realisable".to_string(), format!("model says realisable (size {} align {}), pyxis: {e}", lay.size, lay.align)));
            }
        }
        pipe::Verdict::ParseErr(..) => {
            viol = Some(("harness_parse_error".to_string(), v.err_text()));
        }
        pipe::Verdict::Panic(p) => {
            viol = Some(("panic".to_string(), p.clone()));
        }
    }
    Outcome {
        accepted: v.is_ok(),
        rejects: lay.rejects,
        text: (want_text || viol.is_some()).then(|| input.modules[0].1.clone()),
        viol,
        k: case.k,
    }
}

pub fn run(tier: &str, only: Option<&Value>) -> i32 {
    let mut rep = Report::new("C03", tier);
    let space = LayoutSpace::new(tier, false);
    let n = space.len();
    rep.rule = format!(
        "E1 bounded-exhaustive: every single-type description with k fields over the type/address alphabet (full alphabet k<= {}, sub-alphabet k = {}), times every size/align/packed/vftable attribute combination, at pointer widths 4 and 8; a case is non-trivial-distinct by (verdict, set of model rejection reasons, k, width)",
        if tier == "thorough" { 3 } else { 2 },
        if tier == "thorough" { 4 } else { 3 }
    );
    rep.assumptions = vec![
        "model `layout` encodes the realisability predicate of the statement; its defaulting rule for the effective alignment (explicit, else the sole region's, else pointer size) is re-checked against the resolved item on every accepted case".into(),
        "void by value is excluded from the alphabet".into(),
    ];
    if let Some(loc) = only {
        let index = loc["index"].as_u64().unwrap_or(0) as usize;
        let ps = loc["ps"].as_u64().unwrap_or(8) as usize;
        let o = eval(&space, index, ps, true);
        println!("{}", o.text.clone().unwrap_or_default());
        match o.viol {
            Some((k, d)) => {
                println!("replay: still failing: {k}: {d}");
                return 1;
            }
            None => {
                println!("replay: passes");
                return 0;
            }
        }
    }
    for ps in [4usize, 8] {
        let outs = util::par_map(n, |i, _| {
            let o = eval(&space, i, ps, i % 100_003 == 0);
            (o.accepted, o.rejects.iter().map(|r| r.name()).collect::<Vec<_>>().join("+"), o.viol, o.k, o.text)
        });
        for (i, (acc, rej, viol, k, text)) in outs.into_iter().enumerate() {
            rep.states += 1;
            rep.traces += 1;
            rep.evaluations += 1;
            if k > 0 {
                rep.transitions += 1;
            }
            rep.count(if acc { "accepted" } else { "rejected" }, 1);
            if rej.is_empty() {
                rep.count("model_realisable", 1);
            } else {
                for r in rej.split('+') {
                    rep.count(&format!("model_reject_{r}"), 1);
                }
            }
            rep.distinct_str(&format!("{acc}|{rej}|{k}|{ps}"));
            if let Some((key, detail)) = viol {
                let text = text.clone().unwrap_or_default();
                rep.violation(Violation {
                    key,
                    features: rej.split('+').filter(|s| !s.is_empty()).map(String::from).collect(),
                    input: pipe::Input::single(text),
                    ps,
                    detail,
                    locator: json!({"space": "layout", "index": i, "ps": ps}),
                });
            } else if let Some(t) = text {
                rep.sample(json!({"ps": ps, "index": i, "accepted": acc, "model_rejects": rej, "input": t}));
            }
        }
    }
    rep.extra.insert("space_size_per_width".into(), json!(n));
    rep.finish()
}
