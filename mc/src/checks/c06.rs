//! C06 — a derived type's vftable extends its first base's vftable and shares its pointer.
//! E1 over inheritance shapes and over every single-slot mutation of a compatible prefix;
//! oracles: verdict (accepted => compatible), R (struct layout), S, X (vftable() accessor).

use std::collections::BTreeMap;

use serde_json::{json, Value};

use crate::{checks::hier::*, exec_oracle::*, pipe, report::*, rustc_oracle::*, spec::*, synx, util};

#[derive(Clone, Debug)]
enum Case {
    Shape(Hier),
    /// (description of the mutation or None for the compatible block, text, depth form)
    Mutation(Option<String>, String),
}

fn base_funcs() -> Vec<FuncS> {
    let mut a = FuncS::new("a");
    a.args = vec![("x".into(), MTy::b("u32"))];
    a.ret = Some(MTy::b("u32"));
    let mut b = FuncS::new("b");
    b.recv = Recv::Mut;
    b.args = vec![("p".into(), MTy::b("u8").cptr())];
    let mut c = FuncS::new("c");
    c.cc = Some("stdcall".into());
    c.ret = Some(MTy::b("u64"));
    vec![a, b, c]
}

fn mutations() -> Vec<(Option<String>, Vec<FuncS>)> {
    let base = base_funcs();
    let mut out: Vec<(Option<String>, Vec<FuncS>)> = vec![];
    // compatible: the prefix itself and the prefix plus one new function
    out.push((None, base.clone()));
    let mut ext = base.clone();
    ext.push(FuncS::new("fresh"));
    out.push((None, ext.clone()));
    for with_extra in [false, true] {
        let start = if with_extra { ext.clone() } else { base.clone() };
        for s in 0..3 {
            let mut m = start.clone();
            m[s].name = format!("{}_renamed", m[s].name);
            out.push((Some(format!("slot {s}: name")), m));
            let mut m = start.clone();
            m[s].recv = if m[s].recv == Recv::Const { Recv::Mut } else { Recv::Const };
            out.push((Some(format!("slot {s}: receiver mutability")), m));
            let mut m = start.clone();
            match s {
                0 => m[s].args[0].1 = MTy::b("u64"),
                1 => m[s].args[0].1 = MTy::b("u8").mptr(),
                _ => m[s].args.push(("extra".into(), MTy::b("u32"))),
            }
            out.push((Some(format!("slot {s}: parameter type")), m));
            let mut m = start.clone();
            m[s].ret = match s {
                0 => Some(MTy::b("i32")),
                1 => Some(MTy::b("u32")),
                _ => None,
            };
            out.push((Some(format!("slot {s}: return type")), m));
            let mut m = start.clone();
            m[s].cc = Some(if s == 2 { "thiscall".into() } else { "cdecl".into() });
            out.push((Some(format!("slot {s}: calling convention")), m));
            let mut m = start.clone();
            m.remove(s);
            out.push((Some(format!("slot {s}: dropped")), m));
        }
        for (x, y) in [(0, 1), (1, 2), (0, 2)] {
            let mut m = start.clone();
            m.swap(x, y);
            out.push((Some(format!("slots {x} and {y} swapped")), m));
        }
        // the default convention spelled out is the same convention: not a mutation
        let mut m = start.clone();
        m[0].cc = Some("thiscall".into());
        out.push((None, m));
    }
    out
}

fn mutation_text(block: &[FuncS], form: usize) -> String {
    let mut b = TypeS::new("B");
    b.vft = Some(VftS { size: None, funcs: base_funcs() });
    b.fields = vec![FieldS::new("x", MTy::b("u8").cptr())];
    let mut items = vec![Item::Type(b)];
    let first = match form {
        0 => "B",
        _ => {
            // an intermediate type without a block of its own
            let mut mid = TypeS::new("Mid");
            mid.fields = vec![FieldS::new("base", MTy::user("B")).based(), FieldS::new("m", MTy::b("u8").cptr())];
            items.push(Item::Type(mid));
            "Mid"
        }
    };
    let mut d = TypeS::new("D");
    d.vft = Some(VftS { size: None, funcs: block.to_vec() });
    d.fields = vec![FieldS::new("base", MTy::user(first)).based(), FieldS::new("y", MTy::b("u8").cptr())];
    if form == 3 {
        // an ordinary field declared before the base: it is still the first #[base] field
        d.fields.insert(0, FieldS::new("lead", MTy::b("u8").cptr()));
    }
    if form == 2 {
        // a second base in front of nothing: the first base is still the one with the table
        d.fields.insert(1, FieldS::new("other", MTy::user("Plain")).based());
        let mut p = TypeS::new("Plain");
        p.fields = vec![FieldS::new("z", MTy::b("u8").cptr())];
        items.push(Item::Type(p));
    }
    items.push(Item::Type(d));
    print_module(&ModuleS::new("m").with(items))
}

/// Derived blocks that stop short of a base table whose tail consists of placeholder slots or
/// of functions whose names start with an underscore: still "a slot dropped".
fn short_table_texts() -> Vec<(String, String)> {
    let mut out = vec![];
    for (what, base_block, derived_block) in [
        ("trailing placeholder slots dropped", "    #[size(4)]\n    vftable {\n        pub fn a(&self);\n        pub fn b(&self);\n    },\n", "    vftable {\n        pub fn a(&self);\n        pub fn b(&self);\n    },\n"),
        ("placeholder gap and last function dropped", "    vftable {\n        pub fn a(&self);\n        #[index(3)]\n        pub fn b(&self);\n    },\n", "    vftable {\n        pub fn a(&self);\n    },\n"),
        ("underscore-named last function dropped", "    vftable {\n        pub fn a(&self);\n        pub fn _purecall(&self);\n    },\n", "    vftable {\n        pub fn a(&self);\n    },\n"),
        ("derived table sized shorter than the base", "    #[size(6)]\n    vftable {\n        pub fn a(&self);\n    },\n", "    #[size(3)]\n    vftable {\n        pub fn a(&self);\n    },\n"),
        ("empty derived block", "    vftable {\n        pub fn a(&self);\n    },\n", "    vftable {\n    },\n"),
    ] {
        for mid in [false, true] {
            let mut t = format!("pub type B {{\n{base_block}    pub x: *const u8,\n}}\n");
            let first = if mid {
                t.push_str("pub type Mid {\n    #[base]\n    pub base: B,\n    pub m: *const u8,\n}\n");
                "Mid"
            } else {
                "B"
            };
            t.push_str(&format!("pub type D {{\n{derived_block}    #[base]\n    pub base: {first},\n    pub y: *const u8,\n}}\n"));
            out.push((format!("{what}{}", if mid { " (through an intermediate type)" } else { "" }), t));
        }
    }
    out
}

fn cases(tier: &str) -> Vec<Case> {
    let mut out = vec![];
    let nmax = if tier == "thorough" { 4 } else { 4 };
    for n in 1..=nmax {
        for h in shapes(n) {
            out.push(Case::Shape(h));
        }
    }
    if tier == "thorough" {
        // five types with up to two bases each (chains of depth 4): verdict, layout and text only
        for h in shapes_limited(5, 2) {
            out.push(Case::Shape(h));
        }
    }
    for (what, text) in short_table_texts() {
        out.push(Case::Mutation(Some(format!("short table: {what}")), text));
    }
    // a slot whose parameter type has the same short name in two modules: `engine::Event` in the base table,
    // `game::Event` (incompatible) or `engine::Event` (compatible) in the derived one
    for (compatible, ty_use) in [(true, "use engine::Event;\n"), (false, "pub type Event {\n    pub y: u64,\n}\n")] {
        let engine = "pub type Event {\n    pub x: u32,\n    pub z: u32,\n}\npub type B {\n    vftable {\n        pub fn on_event(&self, e: *mut Event) -> u32;\n    },\n    pub p: *const u8,\n}\n";
        let m = format!("use engine::B;\n{ty_use}pub type D {{\n    vftable {{\n        pub fn on_event(&self, e: *mut Event) -> u32;\n        pub fn extra(&self);\n    }},\n    #[base]\n    pub base: B,\n    pub q: *const u8,\n}}\n");
        let text = format!("//@@module engine\n{engine}//@@module m\n{m}");
        out.push(Case::Mutation(if compatible { None } else { Some("slot 0: parameter type of the same short name from another module".to_string()) }, text));
    }
    // every pair of conventions on the same slot of base and derived table (absent = thiscall for a receiver)
    let ccs: [Option<&str>; 8] = [None, Some("C"), Some("cdecl"), Some("stdcall"), Some("fastcall"), Some("thiscall"), Some("vectorcall"), Some("system")];
    for x in ccs {
        for y in ccs {
            let attr = |c: Option<&str>| c.map(|c| format!("        #[calling_convention(\"{c}\")]\n")).unwrap_or_default();
            let t = format!(
                "pub type B {{\n    vftable {{\n{}        pub fn a(&self, v: u32) -> u32;\n    }},\n    pub x: *const u8,\n}}\npub type D {{\n    vftable {{\n{}        pub fn a(&self, v: u32) -> u32;\n        pub fn extra(&self);\n    }},\n    #[base]\n    pub base: B,\n    pub y: *const u8,\n}}\n",
                attr(x),
                attr(y)
            );
            let same = x.unwrap_or("thiscall") == y.unwrap_or("thiscall");
            out.push(Case::Mutation(if same { None } else { Some(format!("convention pair: base {x:?}, derived {y:?}")) }, t));
        }
    }
    // a base table with a placeholder slot in the middle (`a`, `_vfunc_1`, `c`): the derived block has to
    // keep every function in its slot
    let gap_base = "    vftable {\n        pub fn a(&self);\n        #[index(2)]\n        pub fn c(&self);\n    },\n";
    for (what, derived_block) in [
        (None, "    vftable {\n        pub fn a(&self);\n        #[index(2)]\n        pub fn c(&self);\n        pub fn extra(&self);\n    },\n"),
        (None, "    vftable {\n        pub fn a(&self);\n        #[index(2)]\n        pub fn c(&self);\n    },\n"),
        (Some("placeholder gap closed up"), "    vftable {\n        pub fn a(&self);\n        pub fn c(&self);\n        pub fn extra(&self);\n    },\n"),
        (Some("placeholder gap closed up, same length"), "    vftable {\n        pub fn a(&self);\n        pub fn c(&self);\n        #[index(2)]\n        pub fn extra(&self);\n    },\n"),
        (Some("placeholder gap moved"), "    vftable {\n        #[index(1)]\n        pub fn a(&self);\n        pub fn c(&self);\n    },\n"),
        (Some("function in the base's placeholder slot"), "    vftable {\n        pub fn a(&self);\n        pub fn b(&self);\n        pub fn c(&self);\n    },\n"),
        (Some("placeholder gap widened"), "    vftable {\n        pub fn a(&self);\n        #[index(3)]\n        pub fn c(&self);\n    },\n"),
    ] {
        for mid in [false, true] {
            let mut t = format!("pub type B {{\n{gap_base}    pub x: *const u8,\n}}\n");
            let first = if mid {
                t.push_str("pub type Mid {\n    #[base]\n    pub base: B,\n    pub m: *const u8,\n}\n");
                "Mid"
            } else {
                "B"
            };
            t.push_str(&format!("pub type D {{\n{derived_block}    #[base]\n    pub base: {first},\n    pub y: *const u8,\n}}\n"));
            out.push(Case::Mutation(what.map(|w| format!("gap table: {w}{}", if mid { " (through an intermediate type)" } else { "" })), t));
        }
    }
    for (what, block) in mutations() {
        for form in 0..4 {
            out.push(Case::Mutation(what.clone(), mutation_text(&block, form)));
        }
    }
    out
}

/// nearest type with a block along the first-base chain (the table type vftable() is typed with)
fn table_owner(m: &Model, i: usize) -> Option<usize> {
    if m.h.types[i].block {
        Some(i)
    } else {
        m.first_base(i).filter(|b| m.has_vftable(*b)).and_then(|b| table_owner(m, b))
    }
}

fn appendix(m: &Model) -> String {
    let mut s = String::from("\n#[allow(unused_imports, dead_code)]\nmod __verif {\n    use super::*;\n");
    for i in 0..m.h.types.len() {
        let t = tname(i);
        for k in 0..m.h.types[i].bases.len() {
            s.push_str(&format!("    const _: () = assert!(core::mem::offset_of!({t}, {}) == {}, \"@@base_offset:{t}.{}@@\");\n", bname(k), m.base_offset(i, k), bname(k)));
        }
        s.push_str(&format!("    const _: () = assert!(core::mem::size_of::<{t}>() == {}, \"@@size:{t}@@\");\n", m.size(i)));
        if m.own_ptr(i) {
            s.push_str(&format!("    const _: () = assert!(core::mem::offset_of!({t}, vftable) == 0, \"@@vfptr_offset:{t}@@\");\n"));
            s.push_str(&format!("    const _: () = assert!(core::mem::size_of::<*const {t}Vftable>() == {}, \"@@vfptr_size:{t}@@\");\n", m.ps));
            // the first declared field follows the pointer directly
            let first = if m.h.types[i].lead { format!("lead{i}") } else if m.h.types[i].bases.is_empty() { format!("own{i}") } else { bname(0) };
            s.push_str(&format!("    const _: () = assert!(core::mem::offset_of!({t}, {first}) == {}, \"@@first_field_after_vfptr:{t}@@\");\n", m.ps));
        }
    }
    s.push_str("}\n");
    s
}

fn driver(m: &Model) -> String {
    let mut s = String::from("\n#[allow(warnings)]\npub mod __verif_exec {\n    use super::*;\n    pub unsafe fn run() {\n");
    for i in 0..m.h.types.len() {
        if !m.has_vftable(i) {
            continue;
        }
        let t = tname(i);
        let off = m.vptr_offset(i);
        s.push_str(&format!("        {{\n            let mut o: {t} = core::mem::zeroed();\n            *((core::ptr::addr_of_mut!(o) as *mut u8).add({off}) as *mut u64) = 0x5151_0000 + {i};\n            crate::rt::begin(\"{t}\");\n            crate::rt::end(o.vftable() as u64, &[]);\n        }}\n"));
    }
    s.push_str("    }\n}\n");
    s
}

pub fn run(tier: &str, only: Option<&Value>) -> i32 {
    let mut rep = Report::new("C06", tier);
    let all = cases(tier);
    rep.rule = "E1: (a) every inheritance shape over up to 4 types — each type with an ordered list of 0..3 distinct earlier types as #[base] fields and with or without a vftable block of its own (a block repeats the first base's table and adds one function) — 2 922 shapes; (b) a three-function base table (arguments, return types, an explicit convention) and a derived block that is the compatible prefix, the prefix plus one function, or one of every single-slot mutation (name, receiver mutability, one parameter type, return type, calling convention, slot dropped, two slots swapped; a base table with a placeholder gap whose derived block closes, moves, widens or fills the gap; every ordered pair of the eight convention spellings on one slot), directly, through an intermediate type without a block, and with a second base. Oracle: accepted => compatible (every mutation must be rejected; compatible-but-rejected is counted, not flagged); for accepted shapes rustc asserts base-field offsets, sizes, vftable pointer at offset 0 followed by the first declared field (both widths), syn checks that types whose first base supplies the table have no vftable field and that vftable() is typed with the derived table, and vftable() is executed on the host: it returns the pointer planted at the start of the object. distinct = distinct shapes / mutations".into();
    rep.assumptions = vec!["the reference model places a type's own vftable pointer first, then its bases in order, then its own field".into()];
    let only_i = only.map(|l| (l["index"].as_u64().unwrap_or(0) as usize, l["ps"].as_u64().unwrap_or(8) as usize));
    let idxs: Vec<usize> = match only_i {
        Some((i, _)) => vec![i],
        None => (0..all.len()).collect(),
    };
    let mut xcases = vec![];
    let mut xown = vec![];
    let mut inputs: BTreeMap<usize, pipe::Input> = BTreeMap::new();
    for ps in [4usize, 8] {
        if matches!(only_i, Some((_, p)) if p != ps) {
            continue;
        }
        let outs = util::par_map(idxs.len(), |j, _| {
            let input = match &all[idxs[j]] {
                Case::Shape(h) => to_input(&[module_of(h)]),
                Case::Mutation(_, text) if text.starts_with("//@@module ") => {
                    // several modules in one text: `//@@module <path>` starts each of them; the derived type is in `m`
                    let mut modules = vec![];
                    for part in text.split("//@@module ").skip(1) {
                        let (path, body) = part.split_once('\n').unwrap_or((part, ""));
                        modules.push((path.trim().to_string(), body.to_string()));
                    }
                    pipe::Input { modules }
                }
                Case::Mutation(_, text) => pipe::Input::single(text.clone()),
            };
            let v = pipe::run(&input, ps);
            (input, v)
        });
        let mut rcases = vec![];
        let mut rown = vec![];
        for (j, (input, v)) in outs.iter().enumerate() {
            let i = idxs[j];
            rep.states += 1;
            rep.traces += 1;
            rep.evaluations += 1;
            rep.distinct_str(&input.render());
            let loc = json!({"space": "hierarchies", "index": i, "ps": ps});
            let mut fail = |key: String, detail: String, rep: &mut Report| rep.violation(Violation { key, features: vec![], input: input.clone(), ps, detail, locator: loc.clone() });
            if let pipe::Verdict::Panic(p) = v {
                fail("panic".into(), p.clone(), &mut rep);
                continue;
            }
            match &all[i] {
                Case::Mutation(what, _) => {
                    rep.transitions += 1;
                    match (what, v.is_ok()) {
                        (Some(w), true) => fail(format!("incompatible_block_accepted:{}", w.split(": ").last().unwrap_or(w).replace(' ', "_")), format!("mutation: {w}"), &mut rep),
                        (Some(_), false) => rep.count("mutations_rejected", 1),
                        (None, true) => rep.count("compatible_blocks_accepted", 1),
                        (None, false) => rep.count("compatible_blocks_rejected_(not_flagged)", 1),
                    }
                }
                Case::Shape(h) => {
                    rep.transitions += h.types.iter().map(|t| t.bases.len() as u64 + 1).sum::<u64>();
                    let m = Model { h, ps: ps as u64 };
                    let depth = (0..h.types.len()).map(|i| m.dfs(i).iter().map(|d| d.0.len()).max().unwrap_or(0)).max().unwrap_or(0);
                    rep.count(&format!("shapes_depth_{depth}"), 1);
                    let pipe::Verdict::Ok(b) = v else {
                        rep.count("compatible_shapes_rejected_(not_flagged)", 1);
                        if std::env::var("VERIF_DEBUG").is_ok() {
                            eprintln!("{}\n{}", input.render(), v.err_text());
                        }
                        continue;
                    };
                    rep.count("shapes_accepted", 1);
                    let text = &b.files["m.rs"];
                    let Ok(fi) = synx::file_info(text) else {
                        fail("output_unreadable".into(), text.clone(), &mut rep);
                        continue;
                    };
                    let mut bad = None;
                    for i in 0..h.types.len() {
                        let t = tname(i);
                        let Some(s) = fi.struct_(&t) else {
                            bad = Some(("type_missing".to_string(), t));
                            break;
                        };
                        // the pointer field, whatever it is called: a field of the struct that points to a generated table
                        let has_field = s.fields.iter().any(|f| f.ty.starts_with('*') && f.ty.ends_with("Vftable"));
                        if has_field != m.own_ptr(i) {
                            bad = Some(("vftable_field_presence".to_string(), format!("{t}: model says own pointer = {}, emitted field = {has_field}", m.own_ptr(i))));
                            break;
                        }
                        let acc = fi.method(&t, "vftable");
                        if acc.is_some() != m.has_vftable(i) {
                            bad = Some(("vftable_accessor_presence".to_string(), format!("{t}: model says has vftable = {}, accessor emitted = {}", m.has_vftable(i), acc.is_some())));
                            break;
                        }
                        if let (Some(acc), Some(owner)) = (acc, table_owner(&m, i)) {
                            let want = format!("*const crate::m::{}Vftable", tname(owner));
                            if acc.output.as_deref() != Some(want.as_str()) {
                                bad = Some(("vftable_accessor_type".to_string(), format!("{t}::vftable(): expected `{want}`, emitted {:?}", acc.output)));
                                break;
                            }
                        }
                    }
                    if let Some((k, d)) = bad {
                        fail(k, format!("{d}\n{text}"), &mut rep);
                        continue;
                    }
                    let mut files = b.files.clone();
                    files.get_mut("m.rs").unwrap().push_str(&appendix(&m));
                    rcases.push(RCase::new(files));
                    rown.push(j);
                    if ps == 8 && h.types.len() <= 4 && (0..h.types.len()).any(|i| m.has_vftable(i)) {
                        let mut files = b.files.clone();
                        files.get_mut("m.rs").unwrap().push_str(&driver(&m));
                        xcases.push(RCase::new(files));
                        xown.push(i);
                        inputs.insert(i, input.clone());
                    }
                }
            }
            if j % 499 == 0 {
                rep.sample(json!({"ps": ps, "input": input.render(), "verdict": v.class()}));
            }
        }
        match check_cases(&rcases, Target::for_ps(ps), 150) {
            Err(e) => rep.machinery(format!("{e:#}")),
            Ok((diags, _)) => {
                for (ci, ds) in diags.iter().enumerate() {
                    if ds.is_empty() {
                        continue;
                    }
                    let j = rown[ci];
                    let d = &ds[0];
                    let label = d.rendered.split("@@").nth(1).map(String::from).unwrap_or_else(|| format!("{}:{}", d.code, d.message));
                    let key = if d.rendered.contains("@@") { format!("assert_failed:{}", label.split(':').next().unwrap()) } else { format!("compile_error:{}", d.code) };
                    if !d.rendered.contains("@@") && !matches!(d.code.as_str(), "E0609" | "E0412") {
                        rep.count(&format!("not_compilable_{}_(judged_by_C13)", d.code), 1);
                        continue;
                    }
                    rep.violation(Violation { key, features: vec![], input: outs[j].0.clone(), ps, detail: format!("{label}\n{}", d.rendered), locator: json!({"space": "hierarchies", "index": idxs[j], "ps": ps}) });
                }
            }
        }
    }
    match run_cases(&xcases, "m::__verif_exec::run", 80) {
        Err(e) => rep.machinery(format!("{e:#}")),
        Ok(results) => {
            for (k, r) in results.iter().enumerate() {
                let i = xown[k];
                let Case::Shape(h) = &all[i] else { continue };
                let m = Model { h, ps: 8 };
                let mut viol = None;
                if !r.compile.is_empty() {
                    if r.compile.iter().any(|d| d.rendered.contains("__verif_exec")) {
                        viol = Some((format!("driver_does_not_compile:{}", r.compile[0].code), r.compile[0].rendered.clone()));
                    } else {
                        // the accessor (and every wrapper that dispatches through the shared pointer) exists only
                        // as part of this module: if it does not compile there is nothing that could return the pointer
                        viol = Some((format!("accessor_cannot_be_executed:emitted_module_does_not_compile:{}", r.compile[0].code), r.compile.iter().take(3).map(|d| d.rendered.clone()).collect::<Vec<_>>().join("\n")));
                    }
                } else if let Some(cr) = &r.crashed {
                    viol = Some(("accessor_crashed".to_string(), cr.clone()));
                } else {
                    for t in 0..h.types.len() {
                        if !m.has_vftable(t) {
                            continue;
                        }
                        rep.count("accessors_executed", 1);
                        match r.records.iter().find(|x| x.label == tname(t)) {
                            None => viol = Some(("no_record".to_string(), tname(t))),
                            Some(rec) if rec.ret != 0x5151_0000 + t as u64 => viol = Some(("vftable_accessor_returns_other_pointer".to_string(), format!("{}::vftable() returned {:#x}, the pointer planted at the start of the object is {:#x}", tname(t), rec.ret, 0x5151_0000 + t as u64))),
                            _ => {}
                        }
                    }
                }
                if let Some((key, detail)) = viol {
                    rep.violation(Violation { key, features: vec![], input: inputs[&i].clone(), ps: 8, detail, locator: json!({"space": "hierarchies", "index": i, "ps": 8}) });
                }
            }
        }
    }
    if only.is_some() {
        for v in &rep.violations {
            println!("{}\n{}: {}", v.input.render(), v.key, v.detail);
        }
        let failed = !rep.violations.is_empty() || !rep.machinery_errors.is_empty();
        println!("replay: {}", if failed { "still failing" } else { "passes" });
        return failed as i32;
    }
    rep.finish()
}
