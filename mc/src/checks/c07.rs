//! C07 — base members are re-exposed on derived types and act on the base sub-object.
//! E1 over hierarchies with impl functions; oracles: model of the exposure relation, S (which
//! methods / trait impls exist), X (every emitted method executed: called address or slot and
//! the receiver the callee sees; as_ref()/as_mut() addresses).

use std::collections::{BTreeMap, BTreeSet};

use serde_json::{json, Value};

use crate::{checks::hier::*, exec_oracle::*, pipe, report::*, rustc_oracle::*, spec::*, synx, util};

fn fn_choice(i: usize, choice: usize) -> (Vec<HFn>, bool) {
    let a = |k: u64| 0x20000 + 0x400 * i as u64 + 0x40 * k;
    let f = |name: &str, public: bool, recv: Recv, k: u64| HFn { name: name.into(), public, recv, addr: a(k) };
    match choice {
        0 => (vec![], true),
        1 => (vec![f("f", true, Recv::Const, 0)], true),
        2 => (vec![f("f", true, Recv::Mut, 0), f("g", false, Recv::Const, 1)], false),
        3 => (vec![f("g", true, Recv::None, 0), f("f", true, Recv::Mut, 1)], true),
        // a name no other type uses: accepted whatever the bases expose
        4 => (vec![f(&format!("k{i}"), true, Recv::Const, 0), f("g", i % 2 == 0, Recv::Mut, 1)], i % 2 == 1),
        // a public function named like the virtual function a type deriving from this one may
        // declare (publicly or privately)
        _ => (vec![f(&format!("v{}", i + 1), true, Recv::Const, 0)], i % 2 == 0),
    }
}

fn cases(tier: &str) -> Vec<Hier> {
    let mut out = vec![];
    for n in 1..=3usize {
        for h in shapes(n) {
            // quick: four of the six assignments per position (every assignment occurs at some
            // position, every pair of adjacent positions sees clashing and clash-free names)
            let menu: Vec<Vec<usize>> = if tier == "thorough" || n < 3 {
                vec![(0..6).collect(); n]
            } else {
                vec![vec![0, 1, 3, 5], vec![0, 1, 2, 4], vec![0, 2, 4, 5]]
            };
            let radices: Vec<usize> = menu.iter().map(|m| m.len()).collect();
            for idx in 0..util::product(&radices) {
                let d: Vec<usize> = util::decode(idx, &radices).iter().enumerate().map(|(i, x)| menu[i][*x]).collect();
                let mut h2 = h.clone();
                for i in 0..n {
                    let (fns, vpub) = fn_choice(i, d[i]);
                    h2.types[i].fns = fns;
                    h2.types[i].vpub = vpub;
                }
                out.push(h2);
            }
        }
    }
    // four types: the shapes in which some base type occurs more than once (diamonds), and
    // (thorough) all shapes, with two function assignments
    for h in shapes(4) {
        let probe = Model { h: &h, ps: 8 };
        let diamond = probe.occurrences(3).values().any(|v| v.len() > 1);
        // chains of depth 3: every type's only base is its predecessor
        let chain = (1..4).all(|i| h.types[i].bases == vec![i - 1]);
        // other shapes: only those in which a type with at least two bases is itself a base
        let multi_then_derived = (0..4).any(|i| h.types[i].bases.len() >= 2 && (i + 1..4).any(|j| h.types[j].bases.contains(&i)));
        if !(diamond || chain || multi_then_derived || tier == "thorough") {
            continue;
        }
        // every 4-type shape sees one assignment in which the two oldest types expose the same
        // name (a clash that an intermediate type has to resolve before the youngest inherits it)
        let pats: Vec<[usize; 4]> = if diamond || chain || tier == "thorough" { vec![[1, 1, 1, 0], [3, 2, 1, 0], [4, 4, 4, 4], [1, 3, 0, 4], [1, 1, 0, 0], [0, 0, 0, 0], [1, 0, 0, 0], [4, 0, 0, 1], [0, 4, 0, 0], [5, 5, 5, 0]] } else { vec![[1, 1, 0, 0]] };
        for pat in pats {
            let mut h2 = h.clone();
            for i in 0..4 {
                let (fns, vpub) = fn_choice(i, pat[i]);
                h2.types[i].fns = fns;
                h2.types[i].vpub = vpub;
            }
            out.push(h2);
        }
    }
    out
}

fn stub_id(off: u64, slot: u64) -> u64 {
    0x4000_0000 + off * 0x100 + slot
}

/// Driver calling every method the emitted text defines on every type.
fn driver(m: &Model, fi: &synx::FileInfo) -> String {
    let mut s = String::from("\n#[allow(warnings)]\npub mod __verif_exec {\n    use super::*;\n    pub unsafe fn run() {\n");
    for t in &m.h.types {
        for f in &t.fns {
            s.push_str(&format!("        crate::rt::map_stub_at({:#x});\n", f.addr));
        }
    }
    for i in 0..m.h.types.len() {
        let t = tname(i);
        s.push_str(&format!("        {{\n            let mut o: {t} = core::mem::zeroed();\n            let base = core::ptr::addr_of_mut!(o) as *mut u8;\n"));
        for (k, (off, _)) in m.vptrs(i).iter().enumerate() {
            s.push_str(&format!("            let mut tab{k} = [0u64; 8];\n            for s in 0..8u64 {{ tab{k}[s as usize] = crate::rt::stub({:#x} + s); }}\n            *(base.add({off}) as *mut *const u64) = tab{k}.as_ptr();\n", stub_id(*off, 0)));
        }
        for meth in fi.methods(&t) {
            if meth.name == "vftable" || meth.inputs.len() > 1 {
                continue;
            }
            let call = match meth.inputs.first().map(|x| x.0.as_str()) {
                Some("&self") | Some("&mut self") => format!("o.{}()", meth.name),
                None => format!("{t}::{}()", meth.name),
                _ => continue,
            };
            s.push_str(&format!("            crate::rt::begin(\"{t}::{}\");\n            {call};\n            crate::rt::end(0, &[base as u64]);\n", meth.name));
        }
        for (tj, offs) in m.occurrences(i) {
            if offs.len() == 1 {
                let tjn = tname(tj);
                s.push_str(&format!("            crate::rt::begin(\"{t} as {tjn}\");\n            let r: &{tjn} = <{t} as core::convert::AsRef<{tjn}>>::as_ref(&o);\n            let r = r as *const {tjn} as u64;\n            let w: &mut {tjn} = <{t} as core::convert::AsMut<{tjn}>>::as_mut(&mut o);\n            crate::rt::end(r, &[base as u64, w as *mut {tjn} as u64]);\n"));
            }
        }
        s.push_str("        }\n");
    }
    s.push_str("    }\n}\n");
    s
}

fn matches(e: &Effect, rec: &Record) -> Result<(), String> {
    if rec.events.len() != 1 {
        return Err(format!("{} calls instead of exactly one", rec.events.len()));
    }
    let ev = &rec.events[0];
    let want = match &e.target {
        CallTarget::Addr(a) => *a,
        CallTarget::Slot(off, slot) => stub_id(*off, *slot),
    };
    if ev.stub != want {
        return Err(format!("reached {:#x}, the original reaches {:#x}", ev.stub, want));
    }
    if let Some(r) = e.receiver {
        let obj = rec.extra[0];
        if ev.args[0] != obj + r {
            return Err(format!("callee saw receiver object+{:#x}, the base sub-object is at object+{r:#x}", ev.args[0].wrapping_sub(obj)));
        }
    }
    Ok(())
}

fn judge(m: &Model, fi: &synx::FileInfo, recs: &[Record]) -> Option<(String, String)> {
    for i in 0..m.h.types.len() {
        let t = tname(i);
        let (own_v, cands, own) = m.members(i);
        // how often each original name is wanted on this type
        let mut wanted: BTreeMap<String, usize> = BTreeMap::new();
        for (n, _) in own_v.iter().chain(own.iter()) {
            *wanted.entry(n.clone()).or_default() += 1;
        }
        for c in &cands {
            *wanted.entry(c.name.clone()).or_default() += 1;
        }
        // One valid naming: the rule applied in field order (each name is the original, or
        // `<field>_`-prefixed until it is free). The statement fixes no order, so a candidate may
        // also sit under its original name or its once-prefixed name; whichever name is used,
        // the method found there must have exactly the candidate's effect.
        let sequential = m.associated(i);
        for (ci, c) in cands.iter().enumerate() {
            let mut names = vec![c.name.clone()];
            let once = format!("{}_{}", c.field, c.name);
            if wanted[&c.name] > 1 || wanted.contains_key(&once) || sequential[ci].0 != c.name {
                names.push(once);
            }
            if !names.contains(&sequential[ci].0) {
                names.push(sequential[ci].0.clone());
            }
            let mut ok = false;
            let mut why = vec![];
            for n in &names {
                let label = format!("{t}::{n}");
                let Some(meth) = fi.method(&t, n) else {
                    why.push(format!("no method `{n}`"));
                    continue;
                };
                if !meth.public {
                    why.push(format!("`{n}` is not public"));
                    continue;
                }
                match recs.iter().find(|r| r.label == label) {
                    None => why.push(format!("`{n}` was not executed")),
                    Some(rec) => match matches(&c.effect, rec) {
                        Ok(()) => {
                            ok = true;
                            break;
                        }
                        Err(e) => why.push(format!("`{n}`: {e}")),
                    },
                }
            }
            if !ok {
                return Some((
                    "base_member_not_reexposed_faithfully".into(),
                    format!("{t}: public function `{}` of base field `{}` (effect {:?}) must be callable as {names:?}: {}", c.name, c.field, c.effect, why.join("; ")),
                ));
            }
        }
        // own impl functions and own virtual wrappers still do what they did
        for (n, e) in own.iter().chain(own_v.iter()) {
            if let Some(rec) = recs.iter().find(|r| r.label == format!("{t}::{n}")) {
                if let Err(why) = matches(e, rec) {
                    return Some(("own_member_effect".into(), format!("{t}::{n}: {why}")));
                }
            }
        }
        // conversions
        let impls: BTreeSet<String> = fi.trait_impls(&t).iter().filter_map(|im| im.trait_.clone()).collect();
        for (tj, offs) in m.occurrences(i) {
            let tjn = tname(tj);
            let has_ref = impls.iter().any(|x| x.ends_with(&format!("AsRef<crate::m::{tjn}>")));
            let has_mut = impls.iter().any(|x| x.ends_with(&format!("AsMut<crate::m::{tjn}>")));
            if offs.len() == 1 {
                if !has_ref || !has_mut {
                    return Some(("conversion_missing".into(), format!("{t}: base type {tjn} occurs once, AsRef present: {has_ref}, AsMut present: {has_mut}")));
                }
                let Some(rec) = recs.iter().find(|r| r.label == format!("{t} as {tjn}")) else {
                    return Some(("no_record".into(), format!("{t} as {tjn}")));
                };
                let obj = rec.extra[0];
                if rec.ret != obj + offs[0] || rec.extra[1] != obj + offs[0] {
                    return Some(("conversion_at_wrong_offset".into(), format!("{t} -> {tjn}: as_ref() at object+{:#x}, as_mut() at object+{:#x}, the base is at object+{:#x}", rec.ret.wrapping_sub(obj), rec.extra[1].wrapping_sub(obj), offs[0])));
                }
            } else if has_ref || has_mut {
                return Some(("ambiguous_conversion_emitted".into(), format!("{t}: base type {tjn} occurs {} times but a conversion is emitted", offs.len())));
            }
        }
    }
    None
}

pub fn all_inputs(tier: &str) -> Vec<pipe::Input> {
    cases(tier).iter().map(|h| to_input(&[module_of(h)])).collect()
}

/// Hierarchies that span two modules in which different types share their short name (`g::Node` deep inside
/// an imported base, `m::Node` as a direct base): each occurs once, so the derived type converts to both,
/// at their own offsets, and re-exposes the functions of both.
fn same_name_across_modules(rep: &mut Report) {
    let mut xcases = vec![];
    let mut inputs = vec![];
    let mut expect = vec![];
    for depth in [1usize, 2] {
        for local_first in [false, true] {
            // (g::Node carries a vftable: with Drawable as first base the derived type in module m inherits a table
            // whose struct lives in module g)
            let mut g = String::from("pub type Node {\n    vftable {\n        pub fn vf(&self);\n    },\n    pub x: u64,\n}\nimpl Node {\n    #[address(0x10000)]\n    pub fn id(&self);\n}\n");
            let mut top = "Node";
            if depth == 2 {
                g.push_str("pub type Mid {\n    pub pad: u64,\n    #[base]\n    pub node: Node,\n}\n");
                top = "Mid";
            }
            g.push_str(&format!("pub type Drawable {{\n    #[base]\n    pub inner: {top},\n    pub y: u64,\n}}\n"));
            let (b0, b1) = if local_first { ("pub n: Node", "pub d: Drawable") } else { ("pub d: Drawable", "pub n: Node") };
            let m = format!("use g::Drawable;\npub type Node {{\n    pub z: u64,\n}}\nimpl Node {{\n    #[address(0x20000)]\n    pub fn tag(&self);\n}}\npub type Sprite {{\n    #[base]\n    {b0},\n    #[base]\n    {b1},\n    pub w: u64,\n}}\n");
            let input = pipe::Input { modules: vec![("g".into(), g), ("m".into(), m)] };
            // offsets inside Sprite: Drawable = [pad] Node(8) y(8)
            let dsize = if depth == 2 { 32u64 } else { 24 };
            let d_off = if local_first { 8 } else { 0 };
            let n_off = if local_first { 0 } else { dsize };
            let gnode_off = d_off + if depth == 2 { 8 } else { 0 };
            rep.states += 1;
            rep.traces += 1;
            rep.evaluations += 1;
            rep.transitions += 4;
            rep.distinct_str(&format!("same_name|{depth}|{local_first}"));
            match pipe::run(&input, 8) {
                pipe::Verdict::Ok(b) => {
                    let mut files = b.files.clone();
                    let mut d = String::from("\n#[allow(warnings)]\npub mod __verif_exec {\n    use super::*;\n    pub unsafe fn run() {\n        let mut o: Sprite = core::mem::zeroed();\n        let base = core::ptr::addr_of!(o) as u64;\n        crate::rt::map_stub_at(0x10000);\n        crate::rt::map_stub_at(0x20000);\n");
                    for (label, ty) in [("g_node", "crate::g::Node"), ("m_node", "crate::m::Node"), ("drawable", "crate::g::Drawable")] {
                        d.push_str(&format!("        crate::rt::begin(\"ref_{label}\");\n        let r: &{ty} = o.as_ref();\n        crate::rt::end(r as *const {ty} as u64 - base, &[]);\n"));
                        d.push_str(&format!("        crate::rt::begin(\"mut_{label}\");\n        let r: &mut {ty} = o.as_mut();\n        crate::rt::end(r as *mut {ty} as u64 - base, &[]);\n"));
                    }
                    if !local_first {
                        // the inherited table's accessor names a struct of the other module
                        d.push_str("        crate::rt::begin(\"vftable\");\n        let p: *const crate::g::NodeVftable = o.vftable();\n        crate::rt::end(p as u64, &[]);\n");
                    }
                    for f in ["id", "tag"] {
                        d.push_str(&format!("        crate::rt::begin(\"{f}\");\n        o.{f}();\n        crate::rt::end(0, &[base]);\n"));
                    }
                    d.push_str("    }\n}\n");
                    files.get_mut("m.rs").unwrap().push_str(&d);
                    xcases.push(RCase::new(files));
                    inputs.push(input);
                    expect.push((gnode_off, n_off, d_off));
                }
                other => rep.violation(Violation { key: "valid_hierarchy_rejected".into(), features: vec!["same_name_across_modules".into()], input, ps: 8, detail: other.err_text(), locator: json!({"space": "same_name_across_modules", "ps": 8}) }),
            }
        }
    }
    match run_cases(&xcases, "m::__verif_exec::run", 20) {
        Err(e) => rep.machinery(format!("{e:#}")),
        Ok(results) => {
            for (k, r) in results.iter().enumerate() {
                let (gnode, mnode, drawable) = expect[k];
                let viol = if !r.compile.is_empty() {
                    Some((format!("conversion_or_member_missing_or_not_compilable:{}", r.compile[0].code), r.compile.iter().take(3).map(|d| d.rendered.clone()).collect::<Vec<_>>().join("\n")))
                } else if let Some(cr) = &r.crashed {
                    Some(("method_crashed".to_string(), cr.clone()))
                } else {
                    let mut v = None;
                    for (label, want) in [("g_node", gnode), ("m_node", mnode), ("drawable", drawable)] {
                        for kind in ["ref", "mut"] {
                            match r.records.iter().find(|x| x.label == format!("{kind}_{label}")) {
                                Some(rec) if rec.ret == want => {}
                                Some(rec) => v = Some(("conversion_points_elsewhere".to_string(), format!("as_{kind} to {label}: offset {}, the sub-object is at {want}", rec.ret))),
                                None => v = Some(("no_record".to_string(), format!("{kind}_{label}"))),
                            }
                        }
                    }
                    for (f, stub, off) in [("id", 0x10000u64, gnode), ("tag", 0x20000, mnode)] {
                        match r.records.iter().find(|x| x.label == f) {
                            Some(rec) if rec.events.len() == 1 && rec.events[0].stub == stub && rec.events[0].args[0] == rec.extra[0] + off => {}
                            Some(rec) => v = Some(("base_member_not_reexposed_faithfully".to_string(), format!("{f}(): events {:?}, expected one call of {stub:#x} with receiver at offset {off}", rec.events.iter().map(|e| (e.stub, e.args[0].wrapping_sub(rec.extra[0]))).collect::<Vec<_>>()))),
                            None => v = Some(("no_record".to_string(), f.to_string())),
                        }
                    }
                    rep.count("methods_executed", r.records.len() as u64);
                    v
                };
                if let Some((key, detail)) = viol {
                    rep.violation(Violation { key, features: vec!["same_name_across_modules".into()], input: inputs[k].clone(), ps: 8, detail, locator: json!({"space": "same_name_across_modules", "ps": 8}) });
                }
            }
        }
    }
}

pub fn run(tier: &str, only: Option<&Value>) -> i32 {
    let mut rep = Report::new("C07", tier);
    let all = cases(tier);
    rep.rule = "E1: every inheritance shape over up to 3 types (ordered base lists of up to 3 earlier types, vftable block or not) x five impl-function assignments per type drawn from the names {f, g} (public / private, &self / &mut self / no receiver, public or private virtual function) so that names clash between bases and between base and derived; all 4-type shapes containing a diamond (thorough: all 4-type shapes) x four assignments. Oracle: for every (base field b, public function of b's type incl. inherited ones, public virtual function of a non-first base) the derived type has a public method named like the original, or `<b>_<name>` when the name is wanted more than once, whose execution on the host reaches the original's address / vftable slot exactly once with the receiver at the base sub-object's offset; AsRef/AsMut to every base type occurring once return the sub-object's address, none is emitted for a type occurring more than once; the second base field of every type is a raw identifier (`r#type`); four two-module hierarchies in which two different base types share their short name (both conversions and both types' functions executed). distinct = distinct hierarchies".into();
    rep.assumptions = vec!["descriptions whose own impl function name is already taken by an inherited or virtual function are rejected by design (counted)".into(), "all functions take only a receiver: argument passing is C04/C05's subject".into()];
    let only_i = only.map(|l| l["index"].as_u64().unwrap_or(0) as usize);
    let idxs: Vec<usize> = match only_i {
        Some(i) => vec![i],
        None => (0..all.len()).collect(),
    };
    let ps = 8usize;
    let outs = util::par_map(idxs.len(), |j, _| {
        let h = &all[idxs[j]];
        let input = to_input(&[module_of(h)]);
        let v = pipe::run(&input, ps);
        (input, v)
    });
    let mut xcases = vec![];
    let mut xown = vec![];
    let mut infos: BTreeMap<usize, synx::FileInfo> = BTreeMap::new();
    for (j, (input, v)) in outs.iter().enumerate() {
        let i = idxs[j];
        let h = &all[i];
        let m = Model { h, ps: ps as u64 };
        rep.states += 1;
        rep.traces += 1;
        rep.evaluations += 1;
        rep.transitions += h.types.iter().map(|t| t.bases.len() as u64 + t.fns.len() as u64 + 1).sum::<u64>();
        rep.distinct_str(&input.render());
        let clash = (0..h.types.len()).any(|t| m.name_clash_with_own_impl(t));
        let loc = json!({"space": "hierarchies_with_functions", "index": i, "ps": ps});
        match v {
            pipe::Verdict::Panic(p) => rep.violation(Violation { key: "panic".into(), features: vec![], input: input.clone(), ps, detail: p.clone(), locator: loc }),
            pipe::Verdict::Ok(b) => {
                rep.count("accepted", 1);
                if (0..h.types.len()).any(|t| m.occurrences(t).values().any(|v| v.len() > 1)) {
                    rep.count("accepted_with_diamond", 1);
                }
                if (0..h.types.len()).any(|t| {
                    let (ov, c, o) = m.members(t);
                    let mut names: Vec<&String> = ov.iter().map(|x| &x.0).chain(c.iter().map(|x| &x.name)).chain(o.iter().map(|x| &x.0)).collect();
                    let n = names.len();
                    names.sort();
                    names.dedup();
                    names.len() < n
                }) {
                    rep.count("accepted_with_name_clash", 1);
                }
                match synx::file_info(&b.files["m.rs"]) {
                    Err(e) => rep.violation(Violation { key: "output_unreadable".into(), features: vec![], input: input.clone(), ps, detail: e, locator: loc }),
                    Ok(fi) => {
                        let mut files = b.files.clone();
                        files.get_mut("m.rs").unwrap().push_str(&driver(&m, &fi));
                        xcases.push(RCase::new(files));
                        xown.push(j);
                        infos.insert(j, fi);
                    }
                }
            }
            _ if clash => rep.count("rejected_own_function_name_already_taken", 1),
            _ => {
                // every hierarchy of the space is a valid description unless an own function takes a name that is
                // already in use: a rejection means none of the base members is callable on the derived type
                rep.violation(Violation { key: "valid_hierarchy_rejected".into(), features: vec![], input: input.clone(), ps, detail: v.err_text(), locator: loc });
            }
        }
        if j % 997 == 0 {
            rep.sample(json!({"ps": ps, "input": input.render(), "verdict": v.class()}));
        }
    }
    match run_cases(&xcases, "m::__verif_exec::run", 80) {
        Err(e) => rep.machinery(format!("{e:#}")),
        Ok(results) => {
            for (k, r) in results.iter().enumerate() {
                let j = xown[k];
                let i = idxs[j];
                let h = &all[i];
                let m = Model { h, ps: ps as u64 };
                let mut features = vec![];
                let viol = if !r.compile.is_empty() {
                    // collisions between re-exposed names are a type-check failure of the output (C13)
                    let code = r.compile[0].code.clone();
                    features.push(format!("rustc:{code}"));
                    Some((format!("emitted_methods_do_not_compile:{code}"), r.compile.iter().take(3).map(|d| d.rendered.clone()).collect::<Vec<_>>().join("\n")))
                } else if let Some(cr) = &r.crashed {
                    Some(("method_crashed".to_string(), cr.clone()))
                } else {
                    rep.count("methods_executed", r.records.len() as u64);
                    rep.count("forwarded_to_nonzero_offset", r.records.iter().filter(|x| x.events.len() == 1 && x.events[0].args[0] != x.extra.first().copied().unwrap_or(0) && x.extra.len() == 1).count() as u64);
                    judge(&m, &infos[&j], &r.records)
                };
                if let Some((key, detail)) = viol {
                    rep.violation(Violation { key, features, input: outs[j].0.clone(), ps, detail, locator: json!({"space": "hierarchies_with_functions", "index": i, "ps": ps}) });
                }
            }
        }
    }
    if only.is_none() || matches!(only, Some(l) if l["space"] == "same_name_across_modules") {
        same_name_across_modules(&mut rep);
    }
    if only.is_none() || matches!(only, Some(l) if l["space"] == "underscore_functions") {
        // Functions whose names start with an underscore get no wrapper at all (the convention that keeps
        // placeholder slots out of the API). Whatever the generator does with them, it has to do on the base
        // and on the derived type alike: a public method that exists on the base is callable on the derived one.
        for (k, text) in [
            "pub type B {\n    pub x: u64,\n}\nimpl B {\n    #[address(0x10000)]\n    pub fn _helper(&self);\n    #[address(0x10010)]\n    pub fn shown(&self);\n}\npub type D {\n    #[base]\n    pub b: B,\n    pub y: u64,\n}\n",
            "pub type B {\n    vftable {\n        pub fn _purecall(&self);\n        pub fn v(&self);\n    },\n    pub x: u64,\n}\npub type Other {\n    pub z: u64,\n}\npub type D {\n    #[base]\n    pub o: Other,\n    #[base]\n    pub b: B,\n}\n",
        ]
        .iter()
        .enumerate()
        {
            let input = pipe::Input::single(text.to_string());
            rep.states += 1;
            rep.traces += 1;
            rep.evaluations += 1;
            rep.transitions += 2;
            rep.distinct_str(&format!("underscore|{k}"));
            let viol = match pipe::run(&input, 8) {
                pipe::Verdict::Ok(b) => match synx::file_info(&b.files["m.rs"]) {
                    Err(e) => Some(("output_unreadable".to_string(), e)),
                    Ok(fi) => {
                        let on_d: Vec<String> = fi.methods("D").iter().map(|m| m.name.clone()).collect();
                        fi.methods("B").iter().filter(|m| m.public && m.name != "vftable" && !on_d.contains(&m.name)).map(|m| ("base_member_not_reexposed_faithfully".to_string(), format!("B::{} is a public method of the base type, D has no method of that name (D has {on_d:?})", m.name))).next()
                    }
                },
                other => Some(("valid_hierarchy_rejected".to_string(), other.err_text())),
            };
            if let Some((key, detail)) = viol {
                rep.violation(Violation { key, features: vec!["underscore_function".into()], input, ps: 8, detail, locator: json!({"space": "underscore_functions", "ps": 8}) });
            }
        }
    }
    if only.is_some() {
        for v in &rep.violations {
            println!("{}\n{}: {}", v.input.render(), v.key, v.detail);
        }
        let failed = !rep.violations.is_empty() || !rep.machinery_errors.is_empty();
        println!("replay: {}", if failed { "still failing" } else { "passes" });
        return failed as i32;
    }
    rep.finish()
}
