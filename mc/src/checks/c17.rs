//! C17 — visibility, derives, packing and documentation are carried over faithfully.
//! E1 over visibility x marker x doc-comment assignments; oracle S (syn).

use std::collections::BTreeSet;

use serde_json::{json, Value};

use crate::{pipe, report::*, spec::*, synx, util};

#[derive(Clone, Debug)]
struct Case {
    /// visibility bits: 0 type T, 1 field a (b gets the opposite), 2 impl fn, 3 vfunc, 4 enum, 5 extern value, 6 type P
    vis: u32,
    /// markers of P: copyable, cloneable, defaultable, packed
    pm: u32,
    /// markers of T (has a vftable): copyable, cloneable, packed
    tm: u32,
    /// markers of E: copyable, cloneable, defaultable
    em: u32,
    /// doc choice (0 none, 1 one line, 2 three lines with an empty middle line, 3 two lines with a trailing empty line)
    /// for: module, type, enum, field, impl fn, vfunc, variant
    docs: [usize; 7],
    /// doc comments written after the item's other attributes
    docs_after: bool,
    /// the module also has a `backend rust` prologue and epilogue containing items
    backend: bool,
}

fn doc_lines(what: &str, choice: usize) -> Vec<String> {
    match choice {
        0 => vec![],
        1 => vec![format!(" {what} doc")],
        2 => vec![String::new(), format!(" {what} second"), String::new(), format!(" {what} fourth"), String::new()],
        3 => vec![format!(" {what} line"), String::new()],
        // an empty first line
        _ => vec![String::new(), format!(" {what} after an empty first line")],
    }
}

fn cases(tier: &str) -> Vec<Case> {
    let mut out = vec![];
    // (a) visibility x markers, docs fixed
    for vis in 0..128u32 {
        for pm in 0..16u32 {
            for tm in 0..8u32 {
                // T's markers only with two visibility patterns, to keep the product small
                if tm != 0 && !(vis == 0 || vis == 127) {
                    continue;
                }
                for em in 0..8u32 {
                    if em != 0 && em != 7 && !(vis == 0 || vis == 127 || vis == 0b1010101) {
                        continue;
                    }
                    out.push(Case { vis, pm, tm, em, docs: [1, 1, 0, 1, 0, 1, 0], docs_after: (vis + pm) % 2 == 1, backend: (vis + em) % 3 == 0 });
                }
            }
        }
    }
    // (b) docs product, visibility / markers from two patterns
    let nd: usize = if tier == "thorough" { 5 } else { 3 };
    for idx in 0..nd.pow(7) {
        let d = util::decode(idx, &[nd; 7]);
        for (vis, pm, tm, em, docs_after, backend) in [(127u32, 0u32, 0u32, 0u32, false, false), (0b0101010, 0b0111, 0b011, 0b111, false, true), (0b0101010, 0b0111, 0b011, 0b111, true, false)] {
            out.push(Case { vis, pm, tm, em, docs: [d[0], d[1], d[2], d[3], d[4], d[5], d[6]], docs_after, backend });
        }
    }
    out
}

fn bit(v: u32, i: u32) -> bool {
    v >> i & 1 == 1
}

fn spec_of(c: &Case) -> ModuleS {
    let mut m = ModuleS::new("m");
    m.doc = doc_lines("module", c.docs[0]);
    // T: vftable type
    let mut t = TypeS::new("T");
    t.public = bit(c.vis, 0);
    t.doc = doc_lines("type", c.docs[1]);
    // attributes pyxis does not know (and ignores), one of them of the `name = "text"` form that doc comments
    // have: every documented item also has non-doc attributes for the doc comment to come before or after
    t.extra_attrs = vec!["note(1)".into(), "tag = \"not a doc line 1\"".into()];
    t.copyable = bit(c.tm, 0);
    t.cloneable = bit(c.tm, 1);
    t.packed = bit(c.tm, 2);
    let mut v = FuncS::new("v");
    v.public = bit(c.vis, 3);
    v.doc = doc_lines("vfunc", c.docs[5]);
    v.extra_attrs = vec!["note(2)".into(), "tag = \"not a doc line 2\"".into()];
    let mut w = FuncS::new("w");
    w.public = !bit(c.vis, 3);
    w.index = Some(2);
    t.vft = Some(VftS { size: Some(4), funcs: vec![v, w] });
    let mut a = FieldS::new("a", MTy::b("u8").cptr());
    a.public = bit(c.vis, 1);
    a.doc = doc_lines("field", c.docs[3]);
    a.extra_attrs = vec!["note(3)".into(), "tag = \"not a doc line 3\"".into()];
    let mut b = FieldS::new("b", MTy::b("u32"));
    b.public = !bit(c.vis, 1);
    let mut gap = FieldS::gap(4);
    gap.addr = None;
    let mut e2 = FieldS::new("c", MTy::b("u8").cptr());
    e2.public = true;
    e2.addr = None;
    t.fields = vec![a, b, gap, e2];
    // P: plain type with every marker
    let mut p = TypeS::new("P");
    p.public = bit(c.vis, 6);
    p.copyable = bit(c.pm, 0);
    p.cloneable = bit(c.pm, 1);
    p.defaultable = bit(c.pm, 2);
    p.packed = bit(c.pm, 3);
    p.singleton = Some(0x2000);
    let mut pa = FieldS::new("x", MTy::b("u32"));
    pa.public = bit(c.vis, 1);
    let mut pb = FieldS::new("y", MTy::b("u32").arr(3));
    pb.public = !bit(c.vis, 1);
    pb.addr = Some(8);
    p.fields = vec![pa, pb];
    p.size = Some(24);
    // impl
    let mut f = FuncS::new("f");
    f.public = bit(c.vis, 2);
    f.doc = doc_lines("impl fn", c.docs[4]);
    f.address = Some(0x1000);
    let mut g = FuncS::new("g");
    g.public = !bit(c.vis, 2);
    g.address = Some(0x1010);
    g.recv = Recv::Mut;
    // E
    let mut e = EnumS::new("E", "u16");
    e.public = bit(c.vis, 4);
    e.doc = doc_lines("enum", c.docs[2]);
    e.extra_attrs = vec!["note(4)".into(), "tag = \"not a doc line 4\"".into()];
    e.copyable = bit(c.em, 0);
    e.cloneable = bit(c.em, 1);
    e.defaultable = bit(c.em, 2);
    e.variants = vec![
        VariantS { name: "A".into(), value: None, default: false, doc: doc_lines("variant", c.docs[6]) },
        VariantS { name: "B".into(), value: Some(5), default: e.defaultable, doc: vec![] },
    ];
    // derived type: inherits the documented virtual function and the impl functions
    let mut d = TypeS::new("D");
    d.public = true;
    d.fields = vec![FieldS::new("base", MTy::user("T")).based()];
    d.packed = t.packed;
    let mut pre = vec![];
    if c.backend {
        pre.push(Item::Backend { name: "rust".into(), prologue: Some("use core::ffi::c_void as PrologueItem;".into()), epilogue: Some("pub const EPILOGUE_ITEM: u32 = 1;".into()) });
    }
    m.items = pre;
    m.items.extend(vec![
        Item::Type(t),
        Item::Impl { name: "T".into(), funcs: vec![f, g] },
        Item::Type(p),
        Item::Enum(e),
        Item::ExternValue { name: "gv".into(), public: bit(c.vis, 5), ty: MTy::b("u32"), address: Some(0x3000) },
        Item::Type(d),
    ]);
    m
}

fn input_of(c: &Case) -> pipe::Input {
    let m = spec_of(c);
    pipe::Input { modules: vec![(m.path.clone(), Printer { style: NumStyle::Dec, reverse_type_attrs: false, docs_after_attrs: c.docs_after, attr_order: 0 }.module(&m))] }
}

fn set(v: &[String]) -> BTreeSet<String> {
    v.iter().cloned().collect()
}

fn judge(c: &Case, text: &str) -> Option<(String, String)> {
    let fi = match synx::file_info(text) {
        Ok(f) => f,
        Err(e) => return Some(("output_unreadable".into(), e)),
    };
    macro_rules! need {
        ($e:expr, $what:expr) => {
            match $e {
                Some(x) => x,
                None => return Some(("item_missing".into(), $what.to_string())),
            }
        };
    }
    let d_mod = doc_lines("module", c.docs[0]);
    let d_type = doc_lines("type", c.docs[1]);
    let d_enum = doc_lines("enum", c.docs[2]);
    let d_field = doc_lines("field", c.docs[3]);
    let d_impl = doc_lines("impl fn", c.docs[4]);
    let d_vfunc = doc_lines("vfunc", c.docs[5]);
    let d_var = doc_lines("variant", c.docs[6]);
    let problems: std::cell::RefCell<Vec<(String, String)>> = std::cell::RefCell::new(vec![]);
    let chk = |key: &str, what: &str, ok: bool, detail: String| {
        if !ok {
            problems.borrow_mut().push((key.to_string(), format!("{what}: {detail}")));
        }
    };
    if fi.inner_docs != d_mod {
        problems.borrow_mut().push(("doc_differs".into(), format!("module: declared {d_mod:?} emitted {:?}", fi.inner_docs)));
    }
    let t = need!(fi.struct_("T"), "struct T");
    let p = need!(fi.struct_("P"), "struct P");
    let d = need!(fi.struct_("D"), "struct D");
    let tv = need!(fi.struct_("TVftable"), "struct TVftable");
    let e = need!(fi.enum_("E"), "enum E");
    // visibility
    chk("visibility_differs", "T", t.public == bit(c.vis, 0), format!("emitted pub={}", t.public));
    chk("visibility_differs", "P", p.public == bit(c.vis, 6), format!("emitted pub={}", p.public));
    chk("visibility_differs", "E", e.public == bit(c.vis, 4), format!("emitted pub={}", e.public));
    for (s, fname, want) in [(t, "a", bit(c.vis, 1)), (t, "b", !bit(c.vis, 1)), (t, "c", true), (p, "x", bit(c.vis, 1)), (p, "y", !bit(c.vis, 1)), (d, "base", true)] {
        match s.fields.iter().find(|f| f.name == fname) {
            None => problems.borrow_mut().push(("item_missing".into(), format!("field {}.{fname}", s.name))),
            Some(f) => {
                if f.public != want {
                    problems.borrow_mut().push(("visibility_differs".into(), format!("field {}.{fname}: declared pub={want} emitted pub={}", s.name, f.public)));
                }
            }
        }
    }
    // generated fields (whatever they are called: every field the description does not declare) are private
    let declared: [(&synx::StructInfo, &[&str]); 3] = [(t, &["a", "b", "c"]), (p, &["x", "y"]), (d, &["base"])];
    for (s, names) in declared {
        for f in &s.fields {
            if !names.contains(&f.name.as_str()) && f.public {
                problems.borrow_mut().push(("generated_field_public".into(), format!("{}.{}", s.name, f.name)));
            }
        }
    }
    // T has a vftable pointer and a gap, P has a gap: at least that many generated fields exist
    if t.fields.len() < 3 + 2 || p.fields.len() < 2 + 1 {
        problems.borrow_mut().push(("item_missing".into(), "expected generated vftable / padding fields".into()));
    }
    for f in &tv.fields {
        let (want, placeholder) = match f.name.as_str() {
            "v" => (bit(c.vis, 3), false),
            "w" => (!bit(c.vis, 3), false),
            _ => (false, true),
        };
        if f.public != want {
            problems.borrow_mut().push((if placeholder { "placeholder_slot_public".into() } else { "visibility_differs".into() }, format!("TVftable.{}: expected pub={want} emitted pub={}", f.name, f.public)));
        }
    }
    if tv.fields.iter().filter(|f| f.name != "v" && f.name != "w").count() != 2 {
        problems.borrow_mut().push(("item_missing".into(), "expected two placeholder slots in TVftable".into()));
    }
    for (ty, name, want) in [("T", "f", bit(c.vis, 2)), ("T", "g", !bit(c.vis, 2)), ("T", "v", bit(c.vis, 3)), ("T", "w", !bit(c.vis, 3)), ("P", "get", bit(c.vis, 6))] {
        match fi.method(ty, name) {
            None => problems.borrow_mut().push(("item_missing".into(), format!("method {ty}::{name}"))),
            Some(m) => {
                if m.public != want {
                    problems.borrow_mut().push(("visibility_differs".into(), format!("method {ty}::{name}: declared pub={want} emitted pub={}", m.public)));
                }
            }
        }
    }
    match fi.fns.iter().find(|f| f.name == "get_gv") {
        None => problems.borrow_mut().push(("item_missing".into(), "get_gv".into())),
        Some(f) => {
            if f.public != bit(c.vis, 5) {
                problems.borrow_mut().push(("visibility_differs".into(), format!("get_gv: declared pub={} emitted pub={}", bit(c.vis, 5), f.public)));
            }
        }
    }
    // derives
    let want_derives = |copyable: bool, cloneable: bool, defaultable: bool| {
        let mut s = BTreeSet::new();
        if copyable {
            s.insert("Copy".to_string());
            s.insert("Clone".to_string());
        }
        if cloneable {
            s.insert("Clone".to_string());
        }
        if defaultable {
            s.insert("Default".to_string());
        }
        s
    };
    // only the derives that the markers govern are compared: the generator may add others of its own
    // (Debug, PartialEq, Hash, ...), and each governed one appears at most once
    let governed = |d: &[String]| -> (std::collections::BTreeSet<String>, usize) {
        let g: Vec<String> = d.iter().filter(|x| matches!(x.as_str(), "Copy" | "Clone" | "Default")).cloned().collect();
        (g.iter().cloned().collect(), g.len())
    };
    for (name, derives, want) in [
        ("P", &p.derives, want_derives(bit(c.pm, 0), bit(c.pm, 1), bit(c.pm, 2))),
        ("T", &t.derives, want_derives(bit(c.tm, 0), bit(c.tm, 1), false)),
        ("E", &e.derives, want_derives(bit(c.em, 0), bit(c.em, 1), bit(c.em, 2))),
    ] {
        let (got, n) = governed(derives);
        if got != want || n != want.len() {
            problems.borrow_mut().push(("derives_differ".into(), format!("{name}: expected {want:?} among the emitted derives {derives:?}")));
        }
    }
    // representation
    for (s, packed) in [(p, bit(c.pm, 3)), (t, bit(c.tm, 2))] {
        let has_packed = s.repr.iter().any(|r| r == "packed");
        let has_align = s.repr.iter().any(|r| r.starts_with("align"));
        let has_c = s.repr.iter().any(|r| r == "C");
        if !has_c || has_packed != packed || (packed && has_align) {
            problems.borrow_mut().push(("repr_differs".into(), format!("{}: packed={packed} emitted repr {:?}", s.name, s.repr)));
        }
    }
    if e.repr != vec!["u16".to_string()] {
        problems.borrow_mut().push(("repr_differs".into(), format!("E: emitted repr {:?}", e.repr)));
    }
    // docs: on the counterparts…
    let doc_ok = |what: &str, got: &Vec<String>, want: &Vec<String>| {
        if got != want {
            problems.borrow_mut().push(("doc_differs".into(), format!("{what}: declared {want:?} emitted {got:?}")));
        }
    };
    doc_ok("T", &t.docs, &d_type);
    doc_ok("E", &e.docs, &d_enum);
    let empty: Vec<String> = vec![];
    for f in &t.fields {
        doc_ok(&format!("T.{}", f.name), &f.docs, if f.name == "a" { &d_field } else { &empty });
    }
    for s in [p, d] {
        doc_ok(&s.name.clone(), &s.docs, &empty);
        for f in &s.fields {
            doc_ok(&format!("{}.{}", s.name, f.name), &f.docs, &empty);
        }
    }
    for f in &tv.fields {
        doc_ok(&format!("TVftable.{}", f.name), &f.docs, if f.name == "v" { &d_vfunc } else { &empty });
    }
    doc_ok("TVftable", &tv.docs, &empty);
    for ty in ["T", "D"] {
        for m in fi.methods(ty) {
            let want = match m.name.as_str() {
                "f" => &d_impl,
                "v" => &d_vfunc,
                _ => &empty,
            };
            doc_ok(&format!("{ty}::{}", m.name), &m.docs, want);
        }
    }
    for m in fi.methods("P") {
        doc_ok(&format!("P::{}", m.name), &m.docs, &empty);
    }
    // D re-exposes f, g (when public) and inherits v
    for (name, public) in [("f", bit(c.vis, 2)), ("g", !bit(c.vis, 2)), ("v", bit(c.vis, 3))] {
        let present = fi.method("D", name).is_some();
        // private virtual functions are still part of the derived table, and get a wrapper
        let expect = if name == "v" { true } else { public };
        if present != expect {
            problems.borrow_mut().push(("inherited_member_presence".into(), format!("D::{name}: declared pub={public}, wrapper present={present}")));
        }
    }
    // Enum variants are not among the counterparts the statement lists: a doc comment written
    // on a variant may or may not be carried over, but it must not land on another variant.
    for v in &e.variants {
        if !(v.docs.is_empty() || (v.name == "A" && v.docs == d_var)) {
            problems.borrow_mut().push(("doc_differs".into(), format!("E::{}: emitted {:?}", v.name, v.docs)));
        }
    }
    for f in &fi.fns {
        if f.name == "get_gv" {
            doc_ok("get_gv", &f.docs, &empty);
        }
    }
    let first = problems.borrow().first().cloned();
    first
}

pub fn all_inputs(tier: &str) -> Vec<pipe::Input> {
    cases(tier).iter().map(input_of).collect()
}

pub fn run(tier: &str, only: Option<&Value>) -> i32 {
    let mut rep = Report::new("C17", tier);
    let all = cases(tier);
    rep.rule = "E1: (a) every pub/private assignment to {type, fields, impl function, virtual function, enum, extern value, second type} x every subset of {copyable, cloneable, defaultable, packed} on a plain type x marker subsets on a vftable type and an enum; (b) every assignment of {no doc, one line, three lines with an empty middle line} (thorough: + a trailing empty line) to {module, type, enum, field, impl function, virtual function, enum variant}, with a derived type inheriting the documented members; oracle: syn inspection of visibility, derive lists, repr and #[doc] attributes of every emitted item, including that no other item carries a doc; (c) private items of one module used by another module added before / after it stay private. distinct = distinct case descriptors".into();
    let only_i = only.map(|l| (l["index"].as_u64().unwrap_or(0) as usize, l["ps"].as_u64().unwrap_or(8) as usize));
    for ps in [4usize, 8] {
        if matches!(only_i, Some((_, p)) if p != ps) {
            continue;
        }
        let idxs: Vec<usize> = match only_i {
            Some((i, _)) => vec![i],
            None => (0..all.len()).collect(),
        };
        let outs = util::par_map(idxs.len(), |j, _| {
            let c = &all[idxs[j]];
            let input = input_of(c);
            let v = pipe::run(&input, ps);
            let viol = match &v {
                pipe::Verdict::Panic(p) => Some(("panic".to_string(), p.clone())),
                pipe::Verdict::ParseErr(..) => Some(("harness_parse_error".to_string(), v.err_text())),
                pipe::Verdict::Err(e) => Some(("valid_input_rejected".to_string(), e.clone())),
                pipe::Verdict::Ok(b) => judge(c, &b.files["m.rs"]).map(|(k, d)| (k, format!("{d}\n--- emitted ---\n{}", b.files["m.rs"]))),
            };
            (input, viol)
        });
        for (j, (input, viol)) in outs.into_iter().enumerate() {
            let c = &all[idxs[j]];
            rep.states += 1;
            rep.traces += 1;
            rep.evaluations += 1;
            rep.transitions += 7;
            rep.distinct_str(&format!("{c:?}"));
            let mut features = vec![];
            if c.docs.iter().any(|d| *d == 3) {
                features.push("doc_with_trailing_empty_line".to_string());
            }
            if let Some((key, detail)) = viol {
                rep.violation(Violation { key, features, input, ps, detail, locator: json!({"space": "carry_over", "index": idxs[j], "ps": ps}) });
            } else if j % 4001 == 0 {
                rep.sample(json!({"ps": ps, "input": input.render()}));
            }
        }
    }
    // visibility does not depend on who else uses an item: a private type, enum or field stays private when
    // another module (added before or after) embeds it, points to it or derives from it
    if only.is_none() {
        let a = "type Inner {\n    x: u32,\n    pub y: u32,\n}\nenum Mode: u32 {\n    A,\n}\ntype Base {\n    vftable {\n        fn v(&self);\n    },\n    p: *const u8,\n}\npub type Shown {\n    pub x: u64,\n}\n";
        let b = "use a;\npub type Outer {\n    pub i: Inner,\n    pub arr: [Inner; 2],\n    pub m: Mode,\n    pub pad: u32,\n    pub p: *const Base,\n    pub s: Shown,\n}\npub type Derived {\n    #[base]\n    pub base: Base,\n    pub q: *const u8,\n}\n";
        for ps in [4usize, 8] {
            for (order, mods) in [("a first", vec![("a", a), ("b", b)]), ("b first", vec![("b", b), ("a", a)]), ("alone", vec![("a", a)])] {
                let input = pipe::Input { modules: mods.iter().map(|(p, t)| (p.to_string(), t.to_string())).collect() };
                rep.states += 1;
                rep.traces += 1;
                rep.evaluations += 1;
                rep.transitions += 4;
                rep.distinct_str(&format!("cross_module_visibility|{order}"));
                let viol = match pipe::run(&input, ps) {
                    pipe::Verdict::Ok(bl) => match synx::file_info(&bl.files["a.rs"]) {
                        Err(e) => Some(("output_unreadable".to_string(), e)),
                        Ok(fi) => {
                            let mut bad = vec![];
                            for (name, want) in [("Inner", false), ("Base", false), ("Shown", true)] {
                                match fi.struct_(name) {
                                    None => bad.push(format!("struct {name} missing")),
                                    Some(st) if st.public != want => bad.push(format!("struct {name}: declared pub={want}, emitted pub={}", st.public)),
                                    _ => {}
                                }
                            }
                            if let Some(st) = fi.struct_("Inner") {
                                for (f, want) in [("x", false), ("y", true)] {
                                    if st.fields.iter().find(|x| x.name == f).map(|x| x.public) != Some(want) {
                                        bad.push(format!("field Inner.{f}: declared pub={want}"));
                                    }
                                }
                            }
                            match fi.enum_("Mode") {
                                None => bad.push("enum Mode missing".into()),
                                Some(e) if e.public => bad.push("enum Mode: declared private, emitted pub".into()),
                                _ => {}
                            }
                            if fi.method("Base", "v").is_some_and(|m| m.public) {
                                bad.push("Base::v: declared private, emitted pub".into());
                            }
                            (!bad.is_empty()).then(|| ("visibility_differs".to_string(), format!("modules added {order}: {}", bad.join("; "))))
                        }
                    },
                    pipe::Verdict::Panic(p) => Some(("panic".to_string(), p)),
                    // using a private item of another module may be refused
                    _ => None,
                };
                if let Some((key, detail)) = viol {
                    rep.violation(Violation { key, features: vec!["cross_module".into()], input, ps, detail, locator: json!({"space": "cross_module", "ps": ps}) });
                }
            }
        }
    }
    if only.is_some() {
        for v in &rep.violations {
            println!("{}\n{}: {}", v.input.render(), v.key, v.detail);
        }
        let failed = !rep.violations.is_empty();
        println!("replay: {}", if failed { "still failing" } else { "passes" });
        return failed as i32;
    }
    rep.finish()
}
