//! A reference recogniser for the pyxis grammar over the token alphabet of `tokens.rs`,
//! written from the grammar the parser implements (including its two documented laxities:
//! path segments and the `<…>` "generics hack" are token-concatenated). Used by C18 to decide
//! accept/reject of every explored token sequence independently of the parser.

use crate::checks::tokens::ALPHABET;

#[derive(Clone, Debug, PartialEq)]
enum TT {
    /// keyword that is not an identifier for syn
    Kw(&'static str),
    /// identifier (including pyxis's contextual keywords)
    Id(&'static str),
    Underscore,
    P(&'static str),
    Int(bool), // negative?
    Str,
    Group(char, Vec<TT>),
}

fn classify(tok: &'static str, out: &mut Vec<TT>) {
    match tok {
        "type" | "enum" | "extern" | "impl" | "use" | "pub" | "fn" | "const" | "mut" | "self" | "super" => out.push(TT::Kw(tok)),
        "vftable" | "backend" | "prologue" | "epilogue" | "unknown" | "a" => out.push(TT::Id(tok)),
        "_" => out.push(TT::Underscore),
        "#" | "!" | ":" | "::" | ";" | "," | "=" | "*" | "&" | "->" | "<" | ">" => out.push(TT::P(tok)),
        "-1" => out.push(TT::Int(true)),
        "1" | "0x10" => out.push(TT::Int(false)),
        "\"s\"" => out.push(TT::Str),
        "///d\n" => {
            // a doc comment is the attribute `#[doc = "d"]`
            out.push(TT::P("#"));
            out.push(TT::Group('[', vec![TT::Id("doc"), TT::P("="), TT::Str]));
        }
        _ => unreachable!("token {tok}"),
    }
}

/// Builds the token tree; open delimiters at the end are closed. None for a stray closer.
fn tree(seq: &[usize]) -> Option<Vec<TT>> {
    let mut stack: Vec<(char, Vec<TT>)> = vec![('^', vec![])];
    for &t in seq {
        let tok = ALPHABET[t];
        match tok {
            "{" | "(" | "[" => stack.push((tok.chars().next().unwrap(), vec![])),
            "}" | ")" | "]" => {
                let (open, content) = stack.pop()?;
                let want = match tok {
                    "}" => '{',
                    ")" => '(',
                    _ => '[',
                };
                if open != want || stack.is_empty() {
                    return None;
                }
                stack.last_mut().unwrap().1.push(TT::Group(open, content));
            }
            _ => classify(tok, &mut stack.last_mut().unwrap().1),
        }
    }
    while stack.len() > 1 {
        let (open, content) = stack.pop().unwrap();
        stack.last_mut().unwrap().1.push(TT::Group(open, content));
    }
    Some(stack.pop().unwrap().1)
}

struct C<'a> {
    t: &'a [TT],
    i: usize,
}

type R = Result<(), ()>;

impl<'a> C<'a> {
    fn new(t: &'a [TT]) -> Self {
        C { t, i: 0 }
    }
    fn peek(&self) -> Option<&'a TT> {
        self.t.get(self.i)
    }
    fn peek2(&self) -> Option<&'a TT> {
        self.t.get(self.i + 1)
    }
    fn empty(&self) -> bool {
        self.i >= self.t.len()
    }
    fn is_p(&self, p: &str) -> bool {
        matches!(self.peek(), Some(TT::P(x)) if *x == p)
    }
    fn is_kw(&self, k: &str) -> bool {
        matches!(self.peek(), Some(TT::Kw(x)) if *x == k)
    }
    fn is_id(&self, k: &str) -> bool {
        matches!(self.peek(), Some(TT::Id(x)) if *x == k)
    }
    fn is_syn_ident(&self) -> bool {
        matches!(self.peek(), Some(TT::Id(_)))
    }
    fn p(&mut self, p: &str) -> R {
        if self.is_p(p) {
            self.i += 1;
            Ok(())
        } else {
            Err(())
        }
    }
    fn kw(&mut self, k: &str) -> R {
        if self.is_kw(k) {
            self.i += 1;
            Ok(())
        } else {
            Err(())
        }
    }
    /// pyxis identifier: `_` or a non-keyword identifier
    fn ident(&mut self) -> R {
        match self.peek() {
            Some(TT::Id(_)) | Some(TT::Underscore) => {
                self.i += 1;
                Ok(())
            }
            _ => Err(()),
        }
    }
    fn group(&mut self, d: char) -> Result<&'a [TT], ()> {
        match self.peek() {
            Some(TT::Group(x, c)) if *x == d => {
                self.i += 1;
                Ok(c)
            }
            _ => Err(()),
        }
    }
    /// the generics hack: identifier followed by any run of `<`, identifiers and `>`
    fn type_ident(&mut self) -> R {
        if !self.is_syn_ident() {
            return Err(());
        }
        self.i += 1;
        while self.is_p("<") || self.is_p(">") || self.is_syn_ident() {
            self.i += 1;
        }
        Ok(())
    }
    fn usize_lit(&mut self) -> R {
        match self.peek() {
            Some(TT::Int(false)) => {
                self.i += 1;
                Ok(())
            }
            _ => Err(()),
        }
    }
    fn ty(&mut self) -> R {
        if self.is_id("unknown") {
            self.i += 1;
            self.p("<")?;
            self.usize_lit()?;
            self.p(">")
        } else if self.is_syn_ident() {
            self.type_ident()
        } else if self.is_p("*") {
            self.i += 1;
            if self.is_kw("const") || self.is_kw("mut") {
                self.i += 1;
                self.ty()
            } else {
                Err(())
            }
        } else if let Ok(g) = self.group('[') {
            let mut c = C::new(g);
            c.ty()?;
            c.p(";")?;
            c.usize_lit()?;
            c.end()
        } else {
            Err(())
        }
    }
    fn end(&self) -> R {
        if self.empty() {
            Ok(())
        } else {
            Err(())
        }
    }
    fn expr(&mut self) -> R {
        match self.peek() {
            Some(TT::Id(_)) | Some(TT::Int(_)) | Some(TT::Str) => {
                self.i += 1;
                Ok(())
            }
            _ => Err(()),
        }
    }
    /// `elem (sep elem)* sep?` until the buffer is empty
    fn terminated(&mut self, sep: &str, mut elem: impl FnMut(&mut C<'a>) -> R) -> R {
        loop {
            if self.empty() {
                return Ok(());
            }
            elem(self)?;
            if self.empty() {
                return Ok(());
            }
            self.p(sep)?;
        }
    }
    fn attr_body(&mut self) -> R {
        let g = self.group('[')?;
        let mut c = C::new(g);
        c.terminated(",", |c| {
            c.ident()?;
            if let Ok(args) = c.group('(') {
                let mut a = C::new(args);
                a.terminated(",", |a| a.expr())
            } else if c.is_p("=") {
                c.i += 1;
                c.expr()
            } else {
                Ok(())
            }
        })
    }
    fn outer_attrs(&mut self) -> R {
        while self.is_p("#") {
            self.i += 1;
            self.attr_body()?;
        }
        Ok(())
    }
    fn vis(&mut self) {
        if self.is_kw("pub") {
            self.i += 1;
        }
    }
    fn argument(&mut self) -> R {
        if self.is_p("&") {
            self.i += 1;
            if self.is_kw("mut") {
                self.i += 1;
                self.kw("self")
            } else {
                self.kw("self")
            }
        } else if self.is_syn_ident() {
            self.i += 1;
            self.p(":")?;
            self.ty()
        } else {
            Err(())
        }
    }
    fn function(&mut self) -> R {
        self.outer_attrs()?;
        self.vis();
        self.kw("fn")?;
        self.ident()?;
        let g = self.group('(')?;
        C::new(g).terminated(",", |c| c.argument())?;
        if self.is_p("->") {
            self.i += 1;
            self.ty()?;
        }
        Ok(())
    }
    fn functions(g: &'a [TT]) -> R {
        C::new(g).terminated(";", |c| c.function())
    }
    fn type_statement(&mut self) -> R {
        self.outer_attrs()?;
        if self.is_id("vftable") {
            self.i += 1;
            let g = self.group('{')?;
            Self::functions(g)
        } else {
            self.vis();
            self.ident()?;
            self.p(":")?;
            self.ty()
        }
    }
    fn item_definition(&mut self) -> R {
        if self.is_kw("type") {
            self.i += 1;
            self.ident()?;
            if self.is_p(";") {
                self.i += 1;
                Ok(())
            } else {
                let g = self.group('{')?;
                C::new(g).terminated(",", |c| c.type_statement())
            }
        } else if self.is_kw("enum") {
            self.i += 1;
            self.ident()?;
            self.p(":")?;
            self.ty()?;
            let g = self.group('{')?;
            C::new(g).terminated(",", |c| {
                c.outer_attrs()?;
                c.ident()?;
                if c.is_p("=") {
                    c.i += 1;
                    c.expr()?;
                }
                Ok(())
            })
        } else {
            Err(())
        }
    }
    fn block(&mut self, kw: &str) -> Result<bool, ()> {
        if !self.is_id(kw) {
            return Ok(false);
        }
        self.i += 1;
        match self.peek() {
            Some(TT::Str) => self.i += 1,
            _ => return Err(()),
        }
        self.p(";")?;
        Ok(true)
    }
    fn backend(&mut self) -> R {
        self.i += 1; // `backend`
        self.ident()?;
        if self.block("prologue")? || self.block("epilogue")? {
            return Ok(());
        }
        let g = self.group('{')?;
        let mut c = C::new(g);
        while !c.empty() {
            if !(c.block("prologue")? || c.block("epilogue")?) {
                return Err(());
            }
        }
        Ok(())
    }
    fn module(&mut self) -> R {
        while self.is_p("#") && matches!(self.peek2(), Some(TT::P("!"))) {
            self.i += 2;
            self.attr_body()?;
        }
        while !self.empty() {
            if self.is_kw("use") {
                self.i += 1;
                loop {
                    if self.is_syn_ident() {
                        self.type_ident()?;
                    } else if self.is_p("::") {
                        self.i += 1;
                    } else if self.is_kw("super") {
                        return Err(());
                    } else {
                        break;
                    }
                }
                self.p(";")?;
                continue;
            }
            if self.is_id("backend") {
                self.backend()?;
                continue;
            }
            self.outer_attrs()?;
            if self.is_kw("extern") && matches!(self.peek2(), Some(TT::Kw("type"))) {
                self.i += 2;
                self.type_ident()?;
                self.p(";")?;
                continue;
            }
            if self.is_kw("impl") {
                self.i += 1;
                self.ident()?;
                let g = self.group('{')?;
                Self::functions(g)?;
                continue;
            }
            self.vis();
            if self.is_kw("extern") {
                self.i += 1;
                self.ident()?;
                self.p(":")?;
                self.ty()?;
                self.p(";")?;
                continue;
            }
            if self.is_kw("type") || self.is_kw("enum") {
                self.item_definition()?;
                continue;
            }
            return Err(());
        }
        Ok(())
    }
}

/// Some(true/false): the sequence (with open delimiters closed) is / is not a module of the
/// language; None: it contains a stray closing delimiter (not lexable).
pub fn recognise(seq: &[usize]) -> Option<bool> {
    let t = tree(seq)?;
    Some(C::new(&t).module().is_ok())
}
