//! E3: exhaustive token-sequence exploration of the parser. Full product up to length L1,
//! then breadth-first extension of the sequences the parser has not yet rejected.

use std::panic::catch_unwind;

use serde_json::json;

use crate::{gprint, pipe, report::*, util};

pub const ALPHABET: &[&str] = &[
    "type", "enum", "extern", "impl", "use", "pub", "fn", "const", "mut", "self", "super", "vftable", "backend", "prologue", "epilogue", "unknown", "a", "_", "{", "}", "(", ")", "[", "]", "#", "!", ":", "::", ";", ",", "=", "*", "&", "->", "<", ">", "-1", "1", "0x10", "\"s\"", "///d\n",
];

fn closer(open: &str) -> Option<&'static str> {
    match open {
        "{" => Some("}"),
        "(" => Some(")"),
        "[" => Some("]"),
        _ => None,
    }
}

/// Renders a sequence (closing any open delimiters) and returns the text together with the
/// (line, column) of the start of every token of the sequence. `None` when the sequence
/// closes a delimiter that is not open (cannot be a prefix of any lexable text).
pub fn render(seq: &[usize]) -> Option<(String, Vec<(usize, usize)>)> {
    let mut text = String::new();
    let mut pos = vec![];
    let mut stack: Vec<&str> = vec![];
    let (mut line, mut col) = (1usize, 0usize);
    let mut push = |s: &str, text: &mut String, line: &mut usize, col: &mut usize| {
        for ch in s.chars() {
            text.push(ch);
            if ch == '\n' {
                *line += 1;
                *col = 0;
            } else {
                *col += 1;
            }
        }
    };
    for &t in seq {
        let tok = ALPHABET[t];
        if let Some(c) = closer(tok) {
            stack.push(c);
        } else if matches!(tok, "}" | ")" | "]") {
            match stack.pop() {
                Some(c) if c == tok => {}
                _ => return None,
            }
        }
        if !text.is_empty() && !text.ends_with('\n') {
            push(" ", &mut text, &mut line, &mut col);
        }
        pos.push((line, col));
        push(tok, &mut text, &mut line, &mut col);
    }
    while let Some(c) = stack.pop() {
        if !text.ends_with('\n') {
            push(" ", &mut text, &mut line, &mut col);
        }
        push(c, &mut text, &mut line, &mut col);
    }
    Some((text, pos))
}

#[derive(Clone, Debug)]
pub struct SeqResult {
    pub accepted: bool,
    /// may any extension of this sequence still be accepted / behave differently?
    pub viable: bool,
    pub violation: Option<(String, String)>,
    pub text: String,
    pub error: Option<String>,
}

pub fn eval(seq: &[usize]) -> Option<SeqResult> {
    let (text, pos) = render(seq)?;
    proc_macro2::extra::invalidate_current_thread_spans();
    let t2 = text.clone();
    let r = catch_unwind(move || pyxis::parser::parse_str(&t2).map_err(|e| (e.to_string(), e.span().start(), e.span().end())));
    let mut res = SeqResult { accepted: false, viable: true, violation: None, text: text.clone(), error: None };
    match r {
        Err(_) => {
            res.violation = Some(("panic".into(), "parser panicked".into()));
            res.viable = false;
        }
        Ok(Ok(m)) => {
            res.accepted = true;
            // whatever is accepted must survive print -> parse unchanged
            for st in [gprint::style(0), gprint::covering_styles()[5]] {
                let printed = gprint::print(&m, st);
                proc_macro2::extra::invalidate_current_thread_spans();
                let again = catch_unwind(|| pyxis::parser::parse_str(&printed));
                match again {
                    Ok(Ok(m2)) if m2 == m => {}
                    Ok(Ok(m2)) => {
                        res.violation = Some(("accepted_text_does_not_round_trip".into(), format!("parsed {m:?}\nprinted as:\n{printed}\nwhich parses to {m2:?}")));
                    }
                    Ok(Err(e)) => {
                        res.violation = Some(("accepted_text_reprint_rejected".into(), format!("parsed {m:?}\nprinted as:\n{printed}\nrejected: {e}")));
                    }
                    Err(_) => res.violation = Some(("panic".into(), "parser panicked on re-printed text".into())),
                }
            }
        }
        Ok(Err((msg, start, _end))) => {
            res.error = Some(format!("{msg} @ {}:{}", start.line, start.column));
            // the position must lie inside the text
            let lines: Vec<&str> = text.split('\n').collect();
            let inside = start.line >= 1 && start.line <= lines.len() && start.column <= lines[start.line - 1].chars().count();
            if !inside {
                res.violation = Some(("error_position_outside_text".into(), format!("{msg} at {}:{} for text {text:?}", start.line, start.column)));
            }
            // Viability: the parser is a deterministic left-to-right recogniser with at most
            // two tokens of lookahead. If it failed strictly before the last two tokens of the
            // sequence, no extension can change that.
            if seq.len() >= 3 {
                let limit = pos[seq.len() - 2];
                if (start.line, start.column) < limit && !msg.contains("end of input") && !msg.contains("lex error") {
                    res.viable = false;
                }
            }
        }
    }
    Some(res)
}

/// (full product length, maximum BFS length, cap on sequences per BFS level)
pub fn bounds(tier: &str) -> (usize, usize, usize) {
    if tier == "thorough" {
        (4, 7, 80_000_000)
    } else {
        (3, 5, 8_000_000)
    }
}

/// In-process exploration used by C18 (parse and re-print only).
pub fn explore(rep: &mut Report, tier: &str, _prop: &str, only: Option<Vec<usize>>) {
    if let Some(seq) = only {
        if let Some(r) = eval(&seq) {
            if let Some((key, detail)) = r.violation {
                rep.violation(Violation { key, features: vec![], input: pipe::Input::single(r.text), ps: 0, detail, locator: json!({"space": "tokens", "tokens": seq}) });
            }
        }
        return;
    }
    let (full, maxlen, cap) = bounds(tier);
    let k = ALPHABET.len();
    // level 0: the empty sequence
    let mut frontier: Vec<Vec<usize>> = vec![vec![]];
    let mut deepest = 0;
    for len in 1..=maxlen {
        // extend every frontier sequence by every token
        let total = frontier.len() * k;
        if total > cap {
            rep.caps.push(format!("token sequences of length {len}: {total} candidates exceed the cap {cap}; lengths < {len} fully covered"));
            break;
        }
        let fr = &frontier;
        let outs = util::par_map(total, |i, _| {
            let mut s = fr[i / k].clone();
            s.push(i % k);
            let r = eval(&s);
            (s, r)
        });
        let mut next = vec![];
        for (s, r) in outs {
            let Some(r) = r else {
                rep.count("sequences_unlexable_(unbalanced_closer)", 1);
                continue;
            };
            rep.states += 1;
            rep.transitions += 1;
            rep.traces += 1;
            rep.evaluations += 1;
            rep.count(if r.accepted { "token_sequences_accepted" } else { "token_sequences_rejected" }, 1);
            if let Some(e) = &r.error {
                // distinct error messages without the position
                rep.distinct.insert(util::fnv(e.split(" @ ").next().unwrap_or("")));
            }
            if r.accepted {
                rep.distinct.insert(util::fnv(&r.text));
                if rep.samples.len() < 6 && len >= 4 {
                    rep.sample(json!({"family": "token_sequence", "text": r.text, "accepted": true}));
                }
            }
            if let Some((key, detail)) = r.violation {
                rep.violation(Violation { key, features: vec!["token_sequence".into()], input: pipe::Input::single(r.text.clone()), ps: 0, detail, locator: json!({"space": "tokens", "tokens": s}) });
            }
            // accept/reject must agree with the reference recogniser
            if let Some(want) = crate::checks::recog::recognise(&s) {
                rep.count(if want { "reference_recogniser_accepts" } else { "reference_recogniser_rejects" }, 1);
                if want != r.accepted {
                    let key = if r.accepted { "parser_accepts_what_the_grammar_rejects" } else { "parser_rejects_what_the_grammar_accepts" };
                    rep.violation(Violation { key: key.into(), features: vec!["token_sequence".into()], input: pipe::Input::single(r.text.clone()), ps: 0, detail: format!("reference recogniser: {want}; parser: {}; error: {:?}", r.accepted, r.error), locator: json!({"space": "tokens", "tokens": s}) });
                }
            }
            // full product up to `full`; beyond that only viable sequences are extended
            if len < full || r.viable {
                next.push(s);
            } else {
                rep.count("sequences_pruned_(parser_already_failed_before_the_last_two_tokens)", 1);
            }
        }
        deepest = len;
        rep.counters.insert(format!("token_frontier_after_length_{len}"), next.len() as u64);
        frontier = next;
    }
    rep.counters.insert("token_sequence_max_length_fully_explored".into(), deepest as u64);
}


/// Well-formed modules written over the token alphabet; every single-token mutation of each
/// (deletion, insertion of any alphabet token, replacement by any alphabet token) is evaluated
/// against the reference recogniser. This reaches constructs that sequences of length <= L cannot.
pub const TEMPLATES: &[&str] = &[
    "# ! [ a ] use a :: a ; ///d\n type a { # [ a ( 1 ) ] pub a : * const a , _ : unknown < 1 > }",
    "pub enum a : a { # [ a ] a = 1 , a , a = -1 }",
    "impl a { # [ a ( 0x10 ) ] pub fn a ( & self , a : [ a ; 1 ] ) -> * mut a ; fn a ( & mut self ) }",
    "# [ a ( 1 ) , a ( 1 ) ] extern type a < a > ;",
    "# [ a ( 0x10 ) ] pub extern a : * const a ;",
    "backend a prologue \"s\" ; backend a epilogue \"s\" ;",
    "backend a { prologue \"s\" ; epilogue \"s\" ; }",
    "type a { vftable { pub fn a ( & self ) ; fn a ( ) -> a } , a : a }",
    "type a ; pub type a { }",
    "# [ a = \"s\" , a = 1 , a = a ] type a { ///d\n a : a }",
    "use a :: a < a > :: a ; use a ;",
    "type a { # [ a ] vftable { # [ a ( 1 ) ] fn a ( & self , a : * const a ) -> [ a ; 0x10 ] ; } , # [ a ( 1 ) ] _ : [ [ a ; 1 ] ; 1 ] , }",
    "enum a : unknown < 1 > { } # [ a ( ) ] enum a : * mut a { a = a , a = \"s\" , }",
    "# ! [ a = \"s\" ] # ! [ a ( a , 1 , \"s\" ) ] ///d\n ///d\n pub type a { pub a : a }",
    "impl a { } # [ a ] impl a { pub fn a ( a : a , a : a ) ; }",
];

pub fn template_tokens(t: &str) -> Vec<usize> {
    let mut out = vec![];
    let mut rest = t;
    loop {
        rest = rest.trim_start_matches(' ');
        if rest.is_empty() {
            break;
        }
        // the doc-comment token contains a newline and is written `///d\n`
        let (tok, len) = if rest.starts_with("///d\n") { ("///d\n", 5) } else { let e = rest.find(' ').unwrap_or(rest.len()); (&rest[..e], e) };
        out.push(ALPHABET.iter().position(|a| *a == tok).unwrap_or_else(|| panic!("template token {tok:?} is not in the alphabet")));
        rest = &rest[len..];
    }
    out
}

/// All single-token mutants of a sequence.
pub fn mutants(seq: &[usize]) -> Vec<Vec<usize>> {
    let k = ALPHABET.len();
    let mut out = vec![seq.to_vec()];
    for i in 0..seq.len() {
        let mut d = seq.to_vec();
        d.remove(i);
        out.push(d);
        for t in 0..k {
            if t != seq[i] {
                let mut r = seq.to_vec();
                r[i] = t;
                out.push(r);
            }
        }
    }
    for i in 0..=seq.len() {
        for t in 0..k {
            let mut ins = seq.to_vec();
            ins.insert(i, t);
            out.push(ins);
        }
    }
    out
}

/// Evaluates every template and every single-token mutant: parser vs. recogniser, round trip,
/// error positions.
pub fn explore_mutants(rep: &mut Report) {
    for (ti, t) in TEMPLATES.iter().enumerate() {
        let seq = template_tokens(t);
        match crate::checks::recog::recognise(&seq) {
            Some(true) => {}
            other => rep.machinery(format!("template {ti} is not accepted by the reference recogniser ({other:?}): {t}")),
        }
        let ms = mutants(&seq);
        let outs = util::par_map(ms.len(), |i, _| (eval(&ms[i]), crate::checks::recog::recognise(&ms[i])));
        for (i, (r, want)) in outs.into_iter().enumerate() {
            let (Some(r), Some(want)) = (r, want) else {
                rep.count("mutants_unlexable_(unbalanced_closer)", 1);
                continue;
            };
            rep.states += 1;
            rep.transitions += 1;
            rep.traces += 1;
            rep.evaluations += 1;
            rep.count(if r.accepted { "mutants_accepted" } else { "mutants_rejected" }, 1);
            if i == 0 && !r.accepted {
                rep.violation(Violation { key: "template_rejected".into(), features: vec![], input: pipe::Input::single(r.text.clone()), ps: 0, detail: format!("a well-formed module is rejected: {:?}", r.error), locator: json!({"space": "tokens", "tokens": ms[i]}) });
            }
            if let Some((key, detail)) = r.violation {
                rep.violation(Violation { key, features: vec!["mutant".into()], input: pipe::Input::single(r.text.clone()), ps: 0, detail, locator: json!({"space": "tokens", "tokens": ms[i]}) });
            }
            if want != r.accepted {
                let key = if r.accepted { "parser_accepts_what_the_grammar_rejects" } else { "parser_rejects_what_the_grammar_accepts" };
                rep.violation(Violation { key: key.into(), features: vec!["mutant".into()], input: pipe::Input::single(r.text.clone()), ps: 0, detail: format!("reference recogniser: {want}; parser: {}; error: {:?}", r.accepted, r.error), locator: json!({"space": "tokens", "tokens": ms[i]}) });
            }
        }
    }
}
