//! C04 — virtual-call wrappers dispatch through the declared vftable slot.
//! E1 over vftable-owning types; oracles: slot model + R (table layout, both widths) +
//! X (dispatch executed against two different fake tables) + S (placeholder count).

use std::collections::BTreeMap;

use serde_json::{json, Value};

use crate::{checks::c05::{arg_value, ATy, RET_SENTINEL}, exec_oracle::*, pipe, report::*, rustc_oracle::*, spec::*, synx, util};

#[derive(Clone, Debug)]
struct VCase {
    /// per function: declared #[index]
    idx: Vec<Option<i128>>,
    size: Option<i128>,
    /// signature variety selector
    sig: usize,
    /// 0: the type itself, 1: derived type without own block, 2: derived type repeating the block + one function
    inherit: usize,
    exec: bool,
    /// 0: index is the only attribute; 1..=4: every function also carries a doc line and the (default)
    /// convention "thiscall", written in attribute arrangement `arr - 1` (see spec::Printer::attr_order)
    arr: u8,
}

/// Slot assignment per the statement; None = contradictory description.
fn slots(idx: &[Option<i128>], size: Option<i128>) -> Option<(Vec<u64>, u64)> {
    let mut cur: i128 = 0;
    let mut out = vec![];
    for i in idx {
        if let Some(k) = i {
            if *k < cur {
                return None;
            }
            cur = *k;
        }
        out.push(cur as u64);
        cur += 1;
    }
    let len = match size {
        Some(s) if s < cur => return None,
        Some(s) => s,
        None => cur,
    };
    Some((out, len as u64))
}

fn sig_of(sig: usize, i: usize) -> (Recv, Vec<ATy>, Option<&'static str>) {
    let recv = if (sig + i) % 2 == 0 { Recv::Const } else { Recv::Mut };
    let argsets: [&[ATy]; 5] = [&[], &[ATy::I32], &[ATy::U64, ATy::PtrU8], &[ATy::PtrU8, ATy::I32], &[ATy::U64]];
    let rets = [None, Some("i32"), Some("u64"), Some("*mut u8")];
    (recv, argsets[(sig + i) % 5].to_vec(), rets[(sig / 2 + i) % 4])
}

fn ret_mty(r: Option<&str>) -> Option<MTy> {
    match r {
        None => None,
        Some("i32") => Some(MTy::b("i32")),
        Some("u64") => Some(MTy::b("u64")),
        _ => Some(MTy::b("u8").mptr()),
    }
}

fn aty_mty(a: &ATy) -> MTy {
    match a {
        ATy::U16 => MTy::b("u16"),
        ATy::I32 => MTy::b("i32"),
        ATy::U64 => MTy::b("u64"),
        ATy::PtrU8 => MTy::b("u8").cptr(),
        ATy::PtrSelf => MTy::user("T").mptr(),
    }
}

fn funcs_of(c: &VCase) -> Vec<FuncS> {
    c.idx
        .iter()
        .enumerate()
        .map(|(i, ix)| {
            let (recv, args, ret) = sig_of(c.sig, i);
            let mut f = FuncS::new(&format!("v{i}"));
            f.public = i % 2 == 0;
            f.recv = recv;
            f.index = *ix;
            // some tables use parameter names that collide with the wrapper's own local
            let names: [&str; 2] = if c.sig % 3 == 0 { ["f", "f_"] } else if c.sig % 3 == 1 { ["f_", "f"] } else { ["a0", "a1"] };
            f.args = args.iter().enumerate().map(|(k, a)| (names[k].to_string(), aty_mty(a))).collect();
            f.ret = ret_mty(ret);
            if c.arr > 0 {
                f.cc = Some("thiscall".into());
                f.doc = vec![format!(" function {i}")];
            }
            f
        })
        .collect()
}

fn module_of(c: &VCase) -> ModuleS {
    let mut t = TypeS::new("T");
    t.vft = Some(VftS { size: c.size, funcs: funcs_of(c) });
    t.fields = vec![FieldS::new("p", MTy::b("u8").cptr())];
    let mut items = vec![Item::Type(t)];
    if c.inherit >= 1 {
        let mut d = TypeS::new("D");
        d.fields = vec![FieldS::new("base", MTy::user("T")).based(), FieldS::new("q", MTy::b("u8").cptr())];
        if c.inherit == 2 {
            let mut fs = funcs_of(c);
            // the repeated block plus one more function after the base's table (incl. trailing placeholders)
            let (_, len) = slots(&c.idx, c.size).unwrap_or((vec![], 0));
            let mut extra = FuncS::new("extra");
            extra.recv = Recv::Const;
            extra.index = Some(len as i128);
            fs.push(extra);
            d.vft = Some(VftS { size: None, funcs: fs });
        }
        items.push(Item::Type(d));
    }
    ModuleS::new("m").with(items)
}

fn cases(tier: &str) -> Vec<VCase> {
    let mut out = vec![];
    // layout part: every index pattern over slots 0..=6 for up to 4 functions x table sizes
    let choices: Vec<Option<i128>> = std::iter::once(None).chain((0..=6).map(Some)).collect();
    let maxf = if tier == "thorough" { 4 } else { 3 };
    for nf in 0..=maxf {
        for idx in 0..choices.len().pow(nf as u32) {
            let d = util::decode(idx, &vec![choices.len(); nf]);
            let idxv: Vec<Option<i128>> = d.iter().map(|i| choices[*i]).collect();
            let natural = slots(&idxv, None).map(|(_, l)| l as i128);
            let sizes: Vec<Option<i128>> = match natural {
                Some(l) => vec![None, Some(l), Some(l + 2), Some(l - 1)],
                None => vec![None, Some(8)],
            };
            for size in sizes {
                out.push(VCase { idx: idxv.clone(), size, sig: 0, inherit: 0, exec: false, arr: 0 });
            }
        }
    }
    // quick tier still sees 4-function tables over a reduced index alphabet
    if tier != "thorough" {
        let ch4: Vec<Option<i128>> = vec![None, Some(0), Some(3), Some(5)];
        for idx in 0..ch4.len().pow(4) {
            let d = util::decode(idx, &[4; 4]);
            out.push(VCase { idx: d.iter().map(|i| ch4[*i]).collect(), size: None, sig: 0, inherit: 0, exec: false, arr: 0 });
        }
    }
    // execution part
    let chx: Vec<Option<i128>> = vec![None, Some(0), Some(2), Some(5)];
    let mut sig = 0usize;
    for nf in 0..=3usize {
        for idx in 0..chx.len().pow(nf as u32) {
            let d = util::decode(idx, &vec![chx.len(); nf]);
            let idxv: Vec<Option<i128>> = d.iter().map(|i| chx[*i]).collect();
            let Some((_, len)) = slots(&idxv, None) else { continue };
            for size in [None, Some(len as i128 + 2)] {
                for inherit in 0..3 {
                    sig += 1;
                    out.push(VCase { idx: idxv.clone(), size, sig, inherit, exec: true, arr: 0 });
                }
            }
        }
    }
    // slots with two- and three-digit numbers (placeholder names, ordering and offsets beyond one digit)
    for idxv in [
        vec![Some(10)],
        vec![None, Some(10)],
        vec![Some(9), None, None],
        vec![Some(15), Some(16)],
        vec![None, Some(11), None, Some(20)],
        vec![Some(100)],
        vec![Some(31), None, Some(64)],
        vec![Some(12), Some(11)],
    ] {
        let natural = slots(&idxv, None).map(|(_, l)| l as i128);
        for size in [None, natural.map(|l| l + 2), natural.map(|l| l - 1), Some(128)] {
            out.push(VCase { idx: idxv.clone(), size, sig: 0, inherit: 0, exec: false, arr: 0 });
        }
        if natural.is_some() && idxv.len() <= 3 {
            for inherit in 0..3 {
                out.push(VCase { idx: idxv.clone(), size: None, sig: idxv.len() + inherit, inherit, exec: true, arr: 0 });
            }
        }
    }
    // the index next to other attributes of the same function, in every arrangement
    for arr in 1..=4u8 {
        for nf in 1..=3usize {
            for idx in 0..chx.len().pow(nf as u32) {
                let d = util::decode(idx, &vec![chx.len(); nf]);
                let idxv: Vec<Option<i128>> = d.iter().map(|i| chx[*i]).collect();
                let natural = slots(&idxv, None).map(|(_, l)| l as i128);
                for size in [None, natural.map(|l| l + 2), natural.map(|l| l - 1)] {
                    if natural.is_some() && size.is_none() && nf == 3 && idx % 4 != 0 {
                        continue;
                    }
                    out.push(VCase { idx: idxv.clone(), size, sig: idx, inherit: 0, exec: false, arr });
                }
            }
        }
        out.push(VCase { idx: vec![None, Some(2), None, Some(6)], size: Some(9), sig: arr as usize, inherit: arr as usize % 3, exec: true, arr });
    }
    // four functions with arguments, all signature selectors
    for sig in 0..20 {
        out.push(VCase { idx: vec![None, Some(2), None, Some(6)], size: Some(9), sig, inherit: sig % 3, exec: true, arr: 0 });
    }
    out
}

fn rust_ret(r: Option<&str>) -> Option<&str> {
    r
}

fn driver(c: &VCase, sl: &[u64], len: u64) -> String {
    let ty = if c.inherit == 0 { "T" } else { "D" };
    let total = if c.inherit == 2 { len + 1 } else { len };
    let mut s = String::from("\n#[allow(warnings)]\npub mod __verif_exec {\n    use super::*;\n    pub unsafe fn run() {\n");
    s.push_str(&format!("        let mut t1 = [0u64; {n}];\n        let mut t2 = [0u64; {n}];\n        for i in 0..{total} {{ t1[i] = crate::rt::stub(0x1000 + i as u64); t2[i] = crate::rt::stub(0x2000 + i as u64); }}\n", n = total.max(1), total = total));
    s.push_str(&format!("        let mut o1: {ty} = core::mem::zeroed();\n        let mut o2: {ty} = core::mem::zeroed();\n"));
    s.push_str(&format!("        *(core::ptr::addr_of_mut!(o1) as *mut *const u64) = t1.as_ptr();\n        *(core::ptr::addr_of_mut!(o2) as *mut *const u64) = t2.as_ptr();\n"));
    s.push_str(&format!("        crate::rt::begin(\"vftable\");\n        crate::rt::end(o1.vftable() as u64, &[t1.as_ptr() as u64, o2.vftable() as u64, t2.as_ptr() as u64]);\n"));
    for (o, _) in [("o1", 0x1000u64), ("o2", 0x2000)] {
        for (i, _) in sl.iter().enumerate() {
            let (_, args, ret) = sig_of(c.sig, i);
            let argv: Vec<String> = args
                .iter()
                .enumerate()
                .map(|(k, a)| match a {
                    ATy::I32 => format!("{:#x}u64 as i32", arg_value(k)),
                    ATy::U64 => format!("{:#x}u64", arg_value(k)),
                    _ => format!("{:#x}usize as *const u8", arg_value(k)),
                })
                .collect();
            s.push_str(&format!("        crate::rt::set_ret({RET_SENTINEL:#x});\n        crate::rt::begin(\"{o}.v{i}\");\n"));
            match rust_ret(ret) {
                None => s.push_str(&format!("        let _: () = {o}.v{i}({});\n        crate::rt::end(0, &[core::ptr::addr_of!({o}) as u64]);\n", argv.join(", "))),
                Some(r) => s.push_str(&format!("        let r: {r} = {o}.v{i}({});\n        crate::rt::end(r as u64, &[core::ptr::addr_of!({o}) as u64]);\n", argv.join(", "))),
            }
        }
        if c.inherit == 2 {
            s.push_str(&format!("        crate::rt::begin(\"{o}.extra\");\n        {o}.extra();\n        crate::rt::end(0, &[core::ptr::addr_of!({o}) as u64]);\n"));
        }
    }
    s.push_str("    }\n}\n");
    s
}

fn judge_exec(c: &VCase, sl: &[u64], len: u64, recs: &[Record]) -> Option<(String, String)> {
    let Some(v) = recs.iter().find(|r| r.label == "vftable") else {
        return Some(("no_record".into(), "vftable accessor".into()));
    };
    if v.ret != v.extra[0] || v.extra[1] != v.extra[2] {
        return Some(("vftable_accessor".into(), format!("vftable() returned {:#x}/{:#x}, planted {:#x}/{:#x}", v.ret, v.extra[1], v.extra[0], v.extra[2])));
    }
    for (o, base) in [("o1", 0x1000u64), ("o2", 0x2000)] {
        let mut expect: Vec<(String, u64, usize)> = sl.iter().enumerate().map(|(i, s)| (format!("{o}.v{i}"), base + s, i)).collect();
        if c.inherit == 2 {
            expect.push((format!("{o}.extra"), base + len, usize::MAX));
        }
        for (label, stub, i) in expect {
            let Some(r) = recs.iter().find(|r| r.label == label) else {
                return Some(("no_record".into(), label));
            };
            if r.events.len() != 1 {
                return Some(("call_count".into(), format!("{label}: {} calls instead of exactly one", r.events.len())));
            }
            let e = &r.events[0];
            if e.stub != stub {
                return Some(("dispatched_slot".into(), format!("{label}: entered stub {:#x}, expected {:#x} (table of that object, slot {})", e.stub, stub, stub & 0xfff)));
            }
            if e.args[0] != r.extra[0] {
                return Some(("receiver".into(), format!("{label}: receiver {:#x}, object at {:#x}", e.args[0], r.extra[0])));
            }
            if i != usize::MAX {
                let (_, args, ret) = sig_of(c.sig, i);
                for (k, a) in args.iter().enumerate() {
                    if e.args[1 + k] & a.mask() != arg_value(k) & a.mask() {
                        return Some(("argument".into(), format!("{label}: argument {k} is {:#x}, passed {:#x}", e.args[1 + k] & a.mask(), arg_value(k) & a.mask())));
                    }
                }
                let m = match ret {
                    None => 0,
                    Some("i32") => 0xffff_ffff,
                    _ => u64::MAX,
                };
                if r.ret & m != RET_SENTINEL & m {
                    return Some(("return_value".into(), format!("{label}: returned {:#x}", r.ret)));
                }
            }
        }
    }
    None
}

pub fn run(tier: &str, only: Option<&Value>) -> i32 {
    let mut rep = Report::new("C04", tier);
    let all = cases(tier);
    rep.rule = "E1 over vftable-owning types: every assignment of {no index, #[index(0..6)]} to up to 3 functions (4 thorough; 4 over a reduced alphabet in quick) x declared table size in {none, natural, natural+2, natural-1} (contradictions must be rejected), eight patterns with slots 9..100 and table sizes up to 128 (laid out, three of them executed), and index patterns over {none,0,2,5} with a doc line and an explicit (default) convention on every function in four attribute arrangements (one bracket / one per attribute, index first / last); for accepted cases rustc asserts offset_of!(TVftable, v_i) == slot_i * ps and size_of::<TVftable>() == len * ps on both widths and syn counts the placeholder slots; execution part: index patterns over {none,0,2,5} for up to 3 functions (and a 4-function table) x receivers x 0..2 arguments x 4 return types, on the type itself, on a derived type inheriting the table and on a derived type extending it: two objects with two different fake tables, every wrapper executed: exactly one call, into the slot of *that* object's table, receiver = object, arguments in order, result returned. distinct = distinct (index pattern, size, signature selector, inheritance form)".into();
    rep.assumptions = vec!["a first base that carries the vftable pointer sits at offset 0 (as the statement assumes)".into(), "SysV x86-64 extern \"C\" for the recording stubs".into()];
    let only_i = only.map(|l| (l["index"].as_u64().unwrap_or(0) as usize, l["ps"].as_u64().unwrap_or(8) as usize));
    let idxs: Vec<usize> = match only_i {
        Some((i, _)) => vec![i],
        None => (0..all.len()).collect(),
    };
    let mut xcases = vec![];
    let mut xown = vec![];
    let mut inputs: BTreeMap<usize, pipe::Input> = BTreeMap::new();
    for ps in [4usize, 8] {
        if matches!(only_i, Some((_, p)) if p != ps) {
            continue;
        }
        let outs = util::par_map(idxs.len(), |j, _| {
            let c = &all[idxs[j]];
            let input = if c.arr > 0 { to_input_arranged(&[module_of(c)], c.arr - 1) } else { to_input(&[module_of(c)]) };
            let v = pipe::run(&input, ps);
            (input, v)
        });
        let mut rcases = vec![];
        let mut rown = vec![];
        for (j, (input, v)) in outs.iter().enumerate() {
            let i = idxs[j];
            let c = &all[i];
            rep.states += 1;
            rep.traces += 1;
            rep.evaluations += 1;
            rep.transitions += c.idx.len() as u64 + 1;
            rep.distinct_str(&format!("{:?}{:?}{}{}{}", c.idx, c.size, c.sig, c.inherit, c.arr));
            let model = slots(&c.idx, c.size);
            let loc = json!({"space": "vftables", "index": i, "ps": ps});
            let mut fail = |key: String, detail: String, rep: &mut Report| rep.violation(Violation { key, features: vec![], input: input.clone(), ps, detail, locator: loc.clone() });
            match (v, &model) {
                (pipe::Verdict::Panic(p), _) => fail("panic".into(), p.clone(), &mut rep),
                (pipe::Verdict::ParseErr(..), _) => fail("harness_parse_error".into(), v.err_text(), &mut rep),
                (pipe::Verdict::Ok(_), None) => {
                    let why = if slots(&c.idx, None).is_none() { "contradictory_index" } else { "table_size_too_small" };
                    fail(format!("contradiction_accepted:{why}"), format!("indices {:?} size {:?}", c.idx, c.size), &mut rep)
                }
                (pipe::Verdict::Err(_), None) => rep.count("contradictions_rejected", 1),
                (pipe::Verdict::Err(e), Some(_)) => fail("consistent_table_rejected".into(), e.clone(), &mut rep),
                (pipe::Verdict::Ok(b), Some((sl, len))) => {
                    rep.count("accepted", 1);
                    let text = &b.files["m.rs"];
                    // S: placeholders
                    let fi = synx::file_info(text).ok();
                    let placeholders = fi.as_ref().and_then(|f| f.struct_("TVftable")).map(|s| s.fields.iter().filter(|f| !(f.name.starts_with('v') && f.name[1..].parse::<usize>().is_ok_and(|i| i < c.idx.len()))).count() as u64);
                    if placeholders != Some(len - sl.len() as u64) {
                        fail("placeholder_count".into(), format!("expected {} placeholder slots, emitted {:?}\n{text}", len - sl.len() as u64, placeholders), &mut rep);
                        continue;
                    }
                    // R: slot offsets and table size
                    let mut app = String::from("\n#[allow(unused_imports, dead_code)]\nmod __verif {\n    use super::*;\n");
                    for (k, s) in sl.iter().enumerate() {
                        app.push_str(&format!("    const _: () = assert!(core::mem::offset_of!(TVftable, v{k}) == {}, \"@@slot:v{k}:{s}@@\");\n", s * ps as u64));
                    }
                    app.push_str(&format!("    const _: () = assert!(core::mem::size_of::<TVftable>() == {}, \"@@table_size:{len}@@\");\n", len * ps as u64));
                    app.push_str("    const _: () = assert!(core::mem::offset_of!(T, vftable) == 0, \"@@vfptr_offset@@\");\n}\n");
                    let mut files = b.files.clone();
                    files.get_mut("m.rs").unwrap().push_str(&app);
                    rcases.push(RCase::new(files));
                    rown.push(j);
                    if c.exec && ps == 8 {
                        let mut files = b.files.clone();
                        files.get_mut("m.rs").unwrap().push_str(&driver(c, sl, *len));
                        xcases.push(RCase::new(files));
                        xown.push(i);
                        inputs.insert(i, input.clone());
                    }
                }
            }
            if j % 1777 == 0 {
                rep.sample(json!({"ps": ps, "input": input.render(), "verdict": v.class(), "model_slots": model.as_ref().map(|m| m.0.clone()), "model_len": model.as_ref().map(|m| m.1)}));
            }
        }
        rep.count(&format!("compiled_ps{ps}"), rcases.len() as u64);
        match check_cases(&rcases, Target::for_ps(ps), 300) {
            Err(e) => rep.machinery(format!("{e:#}")),
            Ok((diags, _)) => {
                for (ci, ds) in diags.iter().enumerate() {
                    if ds.is_empty() {
                        continue;
                    }
                    let j = rown[ci];
                    let d = &ds[0];
                    let label = d.rendered.split("@@").nth(1).map(String::from).unwrap_or_else(|| format!("{}:{}", d.code, d.message));
                    let key = if d.rendered.contains("@@") { format!("assert_failed:{}", label.split(':').next().unwrap()) } else { format!("compile_error:{}", d.code) };
                    rep.violation(Violation { key, features: vec![], input: outs[j].0.clone(), ps, detail: format!("{label}\n{}", d.rendered), locator: json!({"space": "vftables", "index": idxs[j], "ps": ps}) });
                }
            }
        }
    }
    match run_cases(&xcases, "m::__verif_exec::run", 40) {
        Err(e) => rep.machinery(format!("{e:#}")),
        Ok(results) => {
            for (k, r) in results.iter().enumerate() {
                let i = xown[k];
                let c = &all[i];
                let (sl, len) = slots(&c.idx, c.size).unwrap();
                let viol = if !r.compile.is_empty() {
                    Some((format!("driver_does_not_compile:{}", r.compile[0].code), r.compile.iter().map(|d| d.rendered.clone()).collect::<Vec<_>>().join("\n")))
                } else if let Some(cr) = &r.crashed {
                    Some(("wrapper_crashed".to_string(), format!("the runner died while executing this case: {cr}")))
                } else {
                    rep.count("wrappers_executed", 2 * sl.len() as u64);
                    judge_exec(c, &sl, len, &r.records)
                };
                if let Some((key, detail)) = viol {
                    rep.violation(Violation { key, features: vec![format!("inherit:{}", c.inherit)], input: inputs[&i].clone(), ps: 8, detail, locator: json!({"space": "vftables", "index": i, "ps": 8}) });
                }
            }
        }
    }
    if only.is_some() {
        for v in &rep.violations {
            println!("{}\n{}: {}", v.input.render(), v.key, v.detail);
        }
        let failed = !rep.violations.is_empty() || !rep.machinery_errors.is_empty();
        println!("replay: {}", if failed { "still failing" } else { "passes" });
        return failed as i32;
    }
    rep.finish()
}
