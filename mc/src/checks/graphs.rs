//! Dependency-graph description space shared by C10 (and fed to the schedule explorer in C09).

use std::collections::BTreeSet;

use crate::{pipe::Input, spec::*, util};

#[derive(Clone, Copy, Debug, PartialEq, Eq, Hash, PartialOrd, Ord)]
pub enum Edge {
    Builtin,
    Val(usize),
    Arr(usize),
    /// a zero-length array of the target: still "contains by value" for the purposes of the statement
    Arr0(usize),
    /// the same in an unnamed field (`_: [T; 0]`), which leaves no trace in the output
    Arr0Anon(usize),
    Base(usize),
    Ptr(usize),
}

impl Edge {
    pub fn target(&self) -> Option<usize> {
        match self {
            Edge::Builtin => None,
            Edge::Val(t) | Edge::Arr(t) | Edge::Arr0(t) | Edge::Arr0Anon(t) | Edge::Base(t) | Edge::Ptr(t) => Some(*t),
        }
    }
    pub fn by_value(&self) -> bool {
        matches!(self, Edge::Val(_) | Edge::Arr(_) | Edge::Arr0(_) | Edge::Arr0Anon(_) | Edge::Base(_))
    }
}

#[derive(Clone, Debug)]
pub struct GraphCase {
    pub input: Input,
    pub n: usize,
    /// per type: its field edges (target == n means the undefined name `Nope`)
    pub edges: Vec<Vec<Edge>>,
    pub assign: Vec<usize>,
    pub family: &'static str,
    /// model: paths (`m0::T1`) of the types that can never be resolved
    pub unresolved: BTreeSet<String>,
    /// other reasons the build must fail (undefined name outside a field)
    pub other_reject: Option<&'static str>,
    /// (type path, field name, expected Rust type text, normalised) for accepted cases
    pub expect_fields: Vec<(String, String, String)>,
}

impl GraphCase {
    pub fn model_ok(&self) -> bool {
        self.unresolved.is_empty() && self.other_reject.is_none()
    }
}

pub fn all_edges(n: usize) -> Vec<Edge> {
    let mut v = vec![Edge::Builtin];
    for t in 0..=n {
        v.push(Edge::Val(t));
        v.push(Edge::Arr(t));
        v.push(Edge::Arr0(t));
        v.push(Edge::Arr0Anon(t));
        v.push(Edge::Base(t));
        v.push(Edge::Ptr(t));
    }
    v
}

fn tname(t: usize, n: usize) -> String {
    if t == n {
        "Nope".to_string()
    } else {
        format!("T{t}")
    }
}

/// Restricted-growth strings: module assignments up to renaming of modules.
pub fn assignments(n: usize, max_mods: usize) -> Vec<Vec<usize>> {
    fn rec(cur: &mut Vec<usize>, n: usize, max_mods: usize, out: &mut Vec<Vec<usize>>) {
        if cur.len() == n {
            out.push(cur.clone());
            return;
        }
        let hi = cur.iter().max().map(|m| m + 1).unwrap_or(0);
        for m in 0..=hi.min(max_mods - 1) {
            cur.push(m);
            rec(cur, n, max_mods, out);
            cur.pop();
        }
    }
    let mut out = vec![];
    rec(&mut vec![], n, max_mods, &mut out);
    out
}

pub fn build_case(n: usize, edges: &[Vec<Edge>], assign: &[usize], decl_order: &[usize], family: &'static str) -> GraphCase {
    build_case_ex(n, edges, assign, decl_order, family, false)
}

/// `by_name`: other modules' types are imported one by one (`use m1::T2;`) instead of `use m1;`
pub fn build_case_ex(n: usize, edges: &[Vec<Edge>], assign: &[usize], decl_order: &[usize], family: &'static str, by_name: bool) -> GraphCase {
    let n_mods = assign.iter().max().map(|m| m + 1).unwrap_or(1);
    let mut mods: Vec<ModuleS> = (0..n_mods).map(|m| ModuleS::new(&format!("m{m}"))).collect();
    // imports: module-level `use mX;` for every other module a type of this module refers to
    for m in 0..n_mods {
        let mut needed = BTreeSet::new();
        for t in 0..n {
            if assign[t] != m {
                continue;
            }
            for e in &edges[t] {
                if let Some(tt) = e.target() {
                    if tt < n && assign[tt] != m {
                        needed.insert(if by_name { format!("m{}::T{tt}", assign[tt]) } else { format!("m{}", assign[tt]) });
                    }
                }
            }
        }
        for x in needed {
            mods[m].items.push(Item::Use(x));
        }
    }
    let mut expect_fields = vec![];
    for &t in decl_order {
        let mut ty = TypeS::new(&format!("T{t}"));
        // C10 is about resolution, not layout: with more than one field the alignment rules
        // would reject many graphs for unrelated reasons, so those types are packed
        ty.packed = edges[t].len() > 1;
        for (fi, e) in edges[t].iter().enumerate() {
            let fname = format!("f{fi}");
            let rust_path = |tt: usize| -> String {
                if tt == n {
                    "Nope".to_string()
                } else {
                    format!("crate::m{}::T{tt}", assign[tt])
                }
            };
            let (f, rust) = match e {
                Edge::Builtin => (FieldS::new(&fname, MTy::b("u32")), "u32".to_string()),
                Edge::Val(tt) => (FieldS::new(&fname, MTy::user(&tname(*tt, n))), rust_path(*tt)),
                Edge::Arr(tt) => (FieldS::new(&fname, MTy::user(&tname(*tt, n)).arr(2)), format!("[{};2]", rust_path(*tt))),
                Edge::Arr0(tt) => (FieldS::new(&fname, MTy::user(&tname(*tt, n)).arr(0)), format!("[{};0]", rust_path(*tt))),
                Edge::Arr0Anon(tt) => {
                    let mut f = FieldS::new(&fname, MTy::user(&tname(*tt, n)).arr(0));
                    f.name = None;
                    f.public = false;
                    ty.fields.push(f);
                    continue;
                }
                Edge::Base(tt) => (FieldS::new(&fname, MTy::user(&tname(*tt, n))).based(), rust_path(*tt)),
                Edge::Ptr(tt) => (FieldS::new(&fname, MTy::user(&tname(*tt, n)).cptr()), format!("*const {}", rust_path(*tt))),
            };
            ty.fields.push(f);
            expect_fields.push((format!("m{}::T{t}", assign[t]), fname, rust));
        }
        mods[assign[t]].items.push(Item::Type(ty));
    }
    // model: fixpoint of resolvability
    let mut resolvable = vec![false; n];
    loop {
        let mut changed = false;
        for t in 0..n {
            if resolvable[t] {
                continue;
            }
            let ok = edges[t].iter().all(|e| match e.target() {
                None => true,
                Some(tt) if tt == n => false,
                Some(tt) => !e.by_value() || resolvable[tt],
            });
            if ok {
                resolvable[t] = true;
                changed = true;
            }
        }
        if !changed {
            break;
        }
    }
    let unresolved = (0..n).filter(|t| !resolvable[*t]).map(|t| format!("m{}::T{t}", assign[t])).collect();
    GraphCase {
        input: to_input(&mods),
        n,
        edges: edges.to_vec(),
        assign: assign.to_vec(),
        family,
        unresolved,
        other_reject: None,
        expect_fields,
    }
}

/// The enumerated graph space. `for_sched`: the (smaller) subset handed to the schedule explorer.
pub fn graph_inputs(tier: &str, for_sched: bool) -> Vec<GraphCase> {
    let mut out = vec![];
    let nmax = if for_sched { 3 } else if tier == "thorough" { 4 } else { 3 };
    for n in 1..=nmax {
        let mut es = all_edges(n);
        if (for_sched && n == 3) || n == 4 {
            // the unnamed zero-length array behaves like the named one under every schedule; explored at n <= 2
            // (and, in the thorough graph space, at n <= 3: the 4-type space is held in memory at once)
            es.retain(|e| !matches!(e, Edge::Arr0Anon(_)));
        }
        let total = es.len().pow(n as u32);
        let assigns = if for_sched { vec![vec![0; n]] } else { assignments(n, 3) };
        for idx in 0..total {
            let d = util::decode(idx, &vec![es.len(); n]);
            let edges: Vec<Vec<Edge>> = d.iter().map(|&c| vec![es[c]]).collect();
            if for_sched {
                // the schedule explorer only needs graphs where order can matter: at least
                // one by-value edge between user types
                if !edges.iter().flatten().any(|e| e.by_value() && e.target().is_some_and(|t| t < n)) {
                    continue;
                }
            }
            for a in &assigns {
                let order: Vec<usize> = (0..n).collect();
                out.push(build_case(n, &edges, a, &order, "one_field"));
                // the same graph with the other modules' types imported by name
                let crosses = (0..n).any(|t| edges[t].iter().any(|e| e.target().is_some_and(|tt| tt < n && a[tt] != a[t])));
                if crosses && n <= 3 {
                    out.push(build_case_ex(n, &edges, a, &order, "one_field_imports_by_name", true));
                }
            }
        }
    }
    if !for_sched {
        // two fields per type over a reduced second-field alphabet (thorough: n = 3, quick: n = 2)
        let n2 = if tier == "thorough" { 3 } else { 2 };
        let es = all_edges(n2);
        let mut second: Vec<Option<Edge>> = vec![None];
        for t in 0..=n2 {
            second.push(Some(Edge::Val(t)));
            second.push(Some(Edge::Ptr(t)));
        }
        let per = es.len() * second.len();
        let total = per.pow(n2 as u32);
        for idx in 0..total {
            let d = util::decode(idx, &vec![per; n2]);
            let edges: Vec<Vec<Edge>> = d
                .iter()
                .map(|&c| {
                    let mut v = vec![es[c % es.len()]];
                    if let Some(e) = second[c / es.len()] {
                        v.push(e);
                    }
                    v
                })
                .collect();
            let order: Vec<usize> = (0..n2).collect();
            out.push(build_case(n2, &edges, &vec![0; n2], &order, "two_fields"));
        }
    }
    // long families: by-value chains of length 1..12 declared forward, backward, interleaved
    let lens: Vec<usize> = if for_sched { vec![4, 5] } else { (1..=12).collect() };
    for &len in &lens {
        let chain: Vec<Vec<Edge>> = (0..len).map(|t| vec![if t + 1 < len { Edge::Val(t + 1) } else { Edge::Builtin }]).collect();
        let fwd: Vec<usize> = (0..len).collect();
        let bwd: Vec<usize> = (0..len).rev().collect();
        let mut inter: Vec<usize> = (0..len).step_by(2).collect();
        inter.extend((1..len).step_by(2));
        for order in [&fwd, &bwd, &inter] {
            out.push(build_case(len, &chain, &vec![0; len], order, "chain"));
            if !for_sched {
                let spread: Vec<usize> = (0..len).map(|t| t % 3).collect();
                // make the assignment a restricted-growth string (module names are arbitrary)
                out.push(build_case(len, &chain, &spread[..].iter().map(|m| (*m).min(len - 1)).collect::<Vec<_>>(), order, "chain_modules"));
            }
        }
        // same chain through arrays and bases
        let mixed: Vec<Vec<Edge>> = (0..len)
            .map(|t| vec![if t + 1 < len { [Edge::Val(t + 1), Edge::Arr(t + 1), Edge::Base(t + 1)][t % 3] } else { Edge::Builtin }])
            .collect();
        out.push(build_case(len, &mixed, &vec![0; len], &bwd, "chain_mixed"));
    }
    // by-value cycles of length 1..6 (with a tail hanging off), pointer cycles
    let cyc_lens: Vec<usize> = if for_sched { vec![2, 3] } else { (1..=6).collect() };
    for &len in &cyc_lens {
        let n = len + 1;
        let mut cyc: Vec<Vec<Edge>> = (0..len).map(|t| vec![Edge::Val((t + 1) % len)]).collect();
        cyc.push(vec![Edge::Val(0)]); // tail type embedding a cycle member
        out.push(build_case(n, &cyc, &vec![0; n], &(0..n).collect::<Vec<_>>(), "value_cycle"));
        let mut pc: Vec<Vec<Edge>> = (0..len).map(|t| vec![Edge::Ptr((t + 1) % len)]).collect();
        pc.push(vec![Edge::Val(0)]);
        out.push(build_case(n, &pc, &vec![0; n], &(0..n).rev().collect::<Vec<_>>(), "pointer_cycle"));
        // (the same by-value cycle with vftable owners is generated in `cycles_with_vftables`)
        // a cycle broken by exactly one pointer edge
        let mut broken: Vec<Vec<Edge>> = (0..len).map(|t| vec![if t == len - 1 { Edge::Ptr(0) } else { Edge::Val(t + 1) }]).collect();
        broken.push(vec![Edge::Arr(0)]);
        out.push(build_case(n, &broken, &vec![0; n], &(0..n).collect::<Vec<_>>(), "cycle_broken_by_pointer"));
    }
    out
}

/// Undefined names outside fields: enum base, impl-function parameter, return type, extern value.
pub fn undefined_elsewhere() -> Vec<(Input, &'static str, bool)> {
    let mk = |items: Vec<Item>| to_input(&[ModuleS::new("m0").with(items)]);
    let t0 = || {
        let mut t = TypeS::new("T0");
        // two u32 keep the size a multiple of the default alignment with and without a vftable pointer
        t.fields = vec![FieldS::new("x", MTy::b("u32")), FieldS::new("y", MTy::b("u32"))];
        t
    };
    let mut out = vec![];
    for (defined, name) in [(false, "Nope"), (true, "T1")] {
        let mut t1 = TypeS::new("T1");
        t1.fields = vec![FieldS::new("y", MTy::b("u64"))];
        let extra = if defined { vec![Item::Type(t1)] } else { vec![] };
        // enum base
        let mut e = EnumS::new("E", "u32");
        e.base = if defined { MTy::b("u16") } else { MTy::user(name) };
        e.variants = vec![VariantS { name: "A".into(), value: None, default: false, doc: vec![] }];
        let mut items = vec![Item::Type(t0()), Item::Enum(e)];
        items.extend(extra.clone());
        out.push((mk(items), "enum_base", defined));
        // impl parameter / return type / vfunc parameter / vfunc return
        for pos in ["impl_param", "impl_return", "vfunc_param", "vfunc_return"] {
            let mut f = FuncS::new("g");
            let ty = MTy::user(name).cptr();
            if pos.ends_with("param") {
                f.args = vec![("p".into(), ty)];
            } else {
                f.ret = Some(ty);
            }
            let mut t = t0();
            let mut items = vec![];
            if pos.starts_with("impl") {
                f.address = Some(0x100);
                items.push(Item::Type(t));
                items.push(Item::Impl { name: "T0".into(), funcs: vec![f] });
            } else {
                t.vft = Some(VftS { size: None, funcs: vec![f] });
                items.push(Item::Type(t));
            }
            items.extend(extra.clone());
            out.push((mk(items), pos, defined));
        }
        // extern value
        let mut items = vec![Item::Type(t0()), Item::ExternValue { name: "gv".into(), public: true, ty: MTy::user(name).mptr(), address: Some(0x2000) }];
        items.extend(extra.clone());
        out.push((mk(items), "extern_value", defined));
    }
    // the vftable struct generated for a type is a defined name in every position
    for pos in ["field_ptr", "field_value", "impl_param", "impl_return", "vfunc_param", "extern_value_ptr", "extern_value"] {
        let mut foo = TypeS::new("Foo");
        foo.vft = Some(VftS { size: None, funcs: vec![FuncS::new("v")] });
        foo.fields = vec![FieldS::new("x", MTy::b("u8").cptr())];
        let vt = MTy::user("FooVftable");
        let mut r = TypeS::new("T1");
        r.fields = vec![FieldS::new("y", MTy::b("u8").cptr())];
        let mut items = vec![];
        let mut f = FuncS::new("g");
        match pos {
            "field_ptr" => r.fields.push(FieldS::new("p", vt.clone().cptr())),
            "field_value" => r.fields.push(FieldS::new("p", vt.clone())),
            "impl_param" => {
                f.address = Some(0x100);
                f.args = vec![("p".into(), vt.clone().cptr())];
                items.push(Item::Impl { name: "T1".into(), funcs: vec![f] });
            }
            "impl_return" => {
                f.address = Some(0x100);
                f.ret = Some(vt.clone().cptr());
                items.push(Item::Impl { name: "T1".into(), funcs: vec![f] });
            }
            "vfunc_param" => {
                f.args = vec![("p".into(), vt.clone().cptr())];
                r.vft = Some(VftS { size: None, funcs: vec![f] });
            }
            "extern_value_ptr" => items.push(Item::ExternValue { name: "gv".into(), public: true, ty: vt.clone().cptr(), address: Some(0x2000) }),
            _ => items.push(Item::ExternValue { name: "gv".into(), public: true, ty: vt.clone(), address: Some(0x2000) }),
        }
        // the owner does not mention the referrer, embeds it by value, or derives from it (the
        // referrer only needs the *name* of the generated table, or a table that holds pointers only)
        for relation in ["none", "embeds", "base"] {
            if relation != "none" && pos.starts_with("extern") {
                continue;
            }
            let mut foo = foo.clone();
            match relation {
                "embeds" => foo.fields.push(FieldS::new("r", MTy::user("T1"))),
                "base" => {
                    foo.fields.insert(0, FieldS::new("b", MTy::user("T1")).based());
                    if let Some(v) = &r.vft {
                        // a first base with a vftable: the derived table repeats its slots
                        let mut funcs = v.funcs.clone();
                        funcs.push(FuncS::new("v"));
                        foo.vft = Some(VftS { size: None, funcs });
                    }
                }
                _ => {}
            }
            // referrer declared before and after the owner
            for owner_first in [true, false] {
                let mut all = vec![];
                if owner_first {
                    all.push(Item::Type(foo.clone()));
                }
                all.push(Item::Type(r.clone()));
                all.extend(items.clone());
                if !owner_first {
                    all.push(Item::Type(foo.clone()));
                }
                // a derived table that repeats `g(p: *const FooVftable)` mentions its own generated struct
                let own = relation == "base" && pos == "vfunc_param";
                out.push((mk(all), if pos.starts_with("extern") { "generated_vftable_in_extern_value" } else if own { "generated_vftable_name_in_own_vfunc" } else { "generated_vftable_name" }, true));
            }
        }
    }
    // ... and in a virtual function of the very type it is generated for
    {
        let mut foo = TypeS::new("Foo");
        let mut g = FuncS::new("g");
        g.args = vec![("p".into(), MTy::user("FooVftable").cptr())];
        foo.vft = Some(VftS { size: None, funcs: vec![g] });
        foo.fields = vec![FieldS::new("x", MTy::b("u8").cptr())];
        out.push((mk(vec![Item::Type(foo)]), "generated_vftable_name_in_own_vfunc", true));
    }
    // ... also when it is imported by name from another module
    for declared_first in [true, false] {
        let mut foo = TypeS::new("Foo");
        foo.vft = Some(VftS { size: None, funcs: vec![FuncS::new("v")] });
        foo.fields = vec![FieldS::new("x", MTy::b("u8").cptr())];
        let mut r = TypeS::new("T1");
        r.fields = vec![FieldS::new("p", MTy::user("FooVftable").cptr()), FieldS::new("y", MTy::b("u8").cptr())];
        let m0 = ModuleS::new("m0").with(vec![Item::Type(foo)]);
        let m1 = ModuleS::new("m1").with(vec![Item::Use("m0::FooVftable".into()), Item::Type(r)]);
        let mods = if declared_first { vec![m0, m1] } else { vec![m1, m0] };
        out.push((to_input(&mods), "generated_vftable_name", true));
    }
    out
}

/// By-value cycles in which one or every member declares a vftable block (its generated vftable
/// item is registered on every attempt): must still end in an error.
pub fn cycles_with_vftables() -> Vec<Input> {
    let mut out = vec![];
    for len in 1..=3usize {
        for all in [false, true] {
            let mut items = vec![];
            for t in 0..len {
                let mut ty = TypeS::new(&format!("T{t}"));
                if all || t == 0 {
                    ty.vft = Some(VftS { size: None, funcs: vec![FuncS::new(&format!("v{t}"))] });
                }
                ty.fields = vec![FieldS::new("next", MTy::user(&format!("T{}", (t + 1) % len)))];
                items.push(Item::Type(ty));
            }
            out.push(to_input(&[ModuleS::new("m0").with(items)]));
        }
    }
    out
}
