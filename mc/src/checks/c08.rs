//! C08 — enum discriminants, representation and default variant are as declared.
//! E1 over enum descriptions; oracles: reference values, rustc const asserts (R), syn (S).

use std::collections::BTreeMap;

use serde_json::{json, Value};

use crate::{model::*, pipe, report::*, rustc_oracle::*, spec::*, synx, util};

#[derive(Clone, Debug)]
struct Case {
    e: EnumS,
    family: &'static str,
}

fn variant(i: usize, value: Option<i128>, default: bool) -> VariantS {
    VariantS { name: format!("V{i}"), value, default, doc: vec![] }
}

fn value_alphabet(base: &str) -> Vec<Option<i128>> {
    let (lo, hi) = int_range(base).unwrap();
    // clip to what the description language can spell (isize literals)
    let lo_c = lo.max(isize::MIN as i128);
    let hi_c = hi.min(isize::MAX as i128);
    vec![
        None,
        Some(0),
        Some(1),
        Some(-1),
        Some(lo_c),
        Some(hi_c),
        Some(lo_c.saturating_sub(1)),
        Some(hi_c.saturating_add(1)),
        Some(0x10),
    ]
}

fn cases(tier: &str) -> Vec<Case> {
    let mut out = vec![];
    let maxlen = if tier == "thorough" { 4 } else { 3 };
    for base in INT_BASES {
        let alpha = value_alphabet(base);
        // (a) all value vectors, no markers
        for len in 1..=maxlen {
            let n = alpha.len().pow(len as u32);
            for idx in 0..n {
                let d = util::decode(idx, &vec![alpha.len(); len]);
                let mut e = EnumS::new("E", base);
                e.variants = d.iter().enumerate().map(|(i, &c)| variant(i, alpha[c], false)).collect();
                out.push(Case { e, family: "values" });
            }
        }
        // (b) marker configurations over the small value alphabet {implicit, 1}
        for len in 1..=3usize {
            for vals in 0..(1usize << len) {
                // marker set: every subset of size <= 2
                for m1 in 0..=len {
                    for m2 in m1..=len {
                        // m == len means "no marker"; m1 == m2 < len means a single marker
                        for defaultable in [false, true] {
                            let mut e = EnumS::new("E", base);
                            e.defaultable = defaultable;
                            e.variants = (0..len)
                                .map(|i| variant(i, if vals >> i & 1 == 1 { Some(1 + i as i128) } else { None }, (i == m1 && m1 < len) || (i == m2 && m2 < len)))
                                .collect();
                            out.push(Case { e, family: "markers" });
                        }
                    }
                }
            }
        }
        // (c) long families
        let (lo, hi) = int_range(base).unwrap();
        let hi_c = hi.min(isize::MAX as i128);
        let _ = lo;
        let lens: Vec<usize> = if tier == "thorough" { (4..=32).collect() } else { vec![4, 5, 8, 16, 31, 32] };
        for &len in &lens {
            let mut e = EnumS::new("E", base);
            e.variants = (0..len).map(|i| variant(i, None, false)).collect();
            out.push(Case { e, family: "long_implicit" });
            for p in [0, len / 2, len - 1] {
                let rest = (len - 1 - p) as i128;
                for v in [1, -1, hi_c - rest, hi_c - rest + 1, 0x7f - rest, 0x7f - rest + 1] {
                    let mut e = EnumS::new("E", base);
                    e.defaultable = true;
                    e.copyable = true;
                    e.variants = (0..len).map(|i| variant(i, if i == p { Some(v) } else { None }, i == p)).collect();
                    out.push(Case { e, family: "long_explicit" });
                }
            }
        }
    }
    out
}

/// What the statement demands of the verdict: `Some(reason)` = must be rejected.
fn must_reject(e: &EnumS) -> Option<&'static str> {
    let (lo, hi) = int_range(match &e.base {
        MTy::B(b) => b,
        _ => return None,
    })
    .unwrap();
    let vals = enum_values(e);
    if vals.iter().any(|v| *v < lo || *v > hi) {
        return Some("value_out_of_range");
    }
    let markers = e.variants.iter().filter(|v| v.default).count();
    if markers > 1 {
        return Some("two_default_markers");
    }
    if markers == 1 && !e.defaultable {
        return Some("marker_without_defaultable");
    }
    if markers == 0 && e.defaultable {
        return Some("defaultable_without_marker");
    }
    None
}

fn base_name(e: &EnumS) -> &'static str {
    match &e.base {
        MTy::B(b) => b,
        _ => "u32",
    }
}

pub fn all_inputs(tier: &str) -> Vec<pipe::Input> {
    cases(tier).iter().map(|c| to_input(&[ModuleS::new("m").with(vec![Item::Enum(c.e.clone())])])).collect()
}

pub fn run(tier: &str, only: Option<&Value>) -> i32 {
    let mut rep = Report::new("C08", tier);
    let all = cases(tier);
    rep.rule = "E1: every enum over the ten integer bases with (a) all value vectors of length 1..3 (4 thorough) over {implicit,0,1,-1,min,max,min-1,max+1,0x10}, (b) all default-marker subsets of size <=2 x defaultable on/off over short enums, (c) long families up to 32 variants with an explicit value placed so that the implicit successors end exactly at / one past the base's maximum; distinct = distinct (base, model value vector, marker config, verdict)".into();
    rep.assumptions = vec![
        "values beyond isize cannot be written in the language; for those the parser's rejection is the expected rejection".into(),
        "Default::default() of a #[derive(Default)] enum is the variant carrying #[default] (rustc semantics); the marked variant is located with syn".into(),
    ];
    let only_idx = only.map(|l| (l["index"].as_u64().unwrap_or(0) as usize, l["ps"].as_u64().unwrap_or(8) as usize));
    for ps in [4usize, 8] {
        if matches!(only_idx, Some((_, p)) if p != ps) {
            continue;
        }
        let idxs: Vec<usize> = match only_idx {
            Some((i, _)) => vec![i],
            None => (0..all.len()).collect(),
        };
        let outs = util::par_map(idxs.len(), |j, _| {
            let c = &all[idxs[j]];
            let input = to_input(&[ModuleS::new("m").with(vec![Item::Enum(c.e.clone())])]);
            let v = pipe::run(&input, ps);
            (input, v)
        });
        let target = Target::for_ps(ps);
        let mut rcases: Vec<RCase> = vec![];
        let mut rowner: Vec<usize> = vec![];
        for (j, (input, v)) in outs.iter().enumerate() {
            let i = idxs[j];
            let c = &all[i];
            rep.states += 1;
            rep.traces += 1;
            rep.evaluations += 1;
            rep.transitions += c.e.variants.len() as u64;
            let vals = enum_values(&c.e);
            let need_reject = must_reject(&c.e);
            rep.count(&format!("family_{}", c.family), 1);
            rep.distinct_str(&format!("{}|{:?}|{:?}|{}|{}", base_name(&c.e), vals, c.e.variants.iter().map(|v| v.default).collect::<Vec<_>>(), c.e.defaultable, v.class()));
            let loc = json!({"space": "enums", "index": i, "ps": ps});
            // every out-of-range value still fits the base's width under the other signedness
            let wraps = {
                let (lo, hi) = int_range(base_name(&c.e)).unwrap();
                let bits = BUILTINS.iter().find(|(n, _, _)| *n == base_name(&c.e)).map(|(_, s, _)| *s * 8).unwrap() as u32;
                let (wlo, whi) = if bits >= 128 { (i128::MIN, i128::MAX) } else { (-(1i128 << (bits - 1)), (1i128 << bits) - 1) };
                vals.iter().any(|v| *v < lo || *v > hi) && vals.iter().all(|v| *v >= wlo && *v <= whi)
            };
            let mut features = vec![format!("base:{}", base_name(&c.e)), format!("family:{}", c.family)];
            if wraps {
                features.push("wraps_within_width".to_string());
            }
            let mut fail = |key: &str, detail: String, rep: &mut Report| {
                rep.violation(Violation { key: key.to_string(), features: features.clone(), input: input.clone(), ps, detail, locator: loc.clone() });
            };
            match v {
                pipe::Verdict::Panic(p) => fail("panic", p.clone(), &mut rep),
                pipe::Verdict::ParseErr(..) | pipe::Verdict::Err(_) => {
                    rep.count("rejected", 1);
                    if let Some(r) = need_reject {
                        rep.count(&format!("rejected_as_required_{r}"), 1);
                    } else if vals.iter().any(|v| *v > i64::MAX as i128 || *v < i64::MIN as i128) {
                        // values beyond the language's 64-bit integers are unspellable (a written one does not
                        // parse, an implicit one is not computed): refusing them is not a fault
                        rep.count("rejected_value_beyond_the_language_integers", 1);
                    } else {
                        // everything the base type can hold has to be emitted with that value: a rejection is the
                        // enum not being "represented as the declared integer base type" at all
                        fail("valid_enum_rejected", format!("values {vals:?} all fit the base type {}: {}", base_name(&c.e), v.err_text()), &mut rep);
                    }
                }
                pipe::Verdict::Ok(b) => {
                    rep.count("accepted", 1);
                    if let Some(r) = need_reject {
                        fail(&format!("accepted_but_must_reject:{r}"), format!("model values {vals:?}; range of {} is {:?}", base_name(&c.e), int_range(base_name(&c.e))), &mut rep);
                        continue;
                    }
                    let Some(it) = b.items.get("m::E") else {
                        fail("enum_missing", "m::E not in registry".into(), &mut rep);
                        continue;
                    };
                    let got: Vec<i128> = it.enum_fields.iter().map(|(_, v)| *v as i128).collect();
                    if got != vals {
                        fail("resolved_values_differ", format!("model {vals:?} resolved {got:?}"), &mut rep);
                        continue;
                    }
                    let text = &b.files["m.rs"];
                    // S: default marker and derives
                    match synx::enum_info(text, "E") {
                        Err(e) => fail("emitted_enum_unreadable", e, &mut rep),
                        Ok(info) => {
                            let marked: Vec<String> = c.e.variants.iter().filter(|v| v.default).map(|v| v.name.clone()).collect();
                            if info.default_variants != marked {
                                fail("default_variant_differs", format!("declared {marked:?} emitted {:?}", info.default_variants), &mut rep);
                            }
                            if info.derives.contains(&"Default".to_string()) != c.e.defaultable {
                                fail("default_derive_differs", format!("defaultable={} derives={:?}", c.e.defaultable, info.derives), &mut rep);
                            }
                            if info.repr != vec![base_name(&c.e).to_string()] {
                                fail("repr_differs", format!("repr {:?}", info.repr), &mut rep);
                            }
                        }
                    }
                    // R: values, size, align — only when rustc can accept the enum at all
                    let mut sorted = vals.clone();
                    sorted.sort();
                    sorted.dedup();
                    if sorted.len() != vals.len() {
                        rep.count("duplicate_discriminants_(values_checked_without_rustc)", 1);
                        continue;
                    }
                    let base = base_name(&c.e);
                    let (bs, ba) = BUILTINS.iter().find(|(n, _, _)| *n == base).map(|(_, s, a)| (*s, *a)).unwrap();
                    let mut app = String::from("\n#[allow(unused_imports, dead_code)]\nmod __verif {\n    use super::*;\n");
                    for (vv, val) in c.e.variants.iter().zip(&vals) {
                        app.push_str(&format!("    const _: () = assert!((E::{} as {base}) as i128 == {val}i128, \"@@value:{}:{val}@@\");\n", vv.name, vv.name));
                    }
                    app.push_str(&format!("    const _: () = assert!(core::mem::size_of::<E>() == {bs}, \"@@size:E:{bs}@@\");\n"));
                    app.push_str(&format!("    const _: () = assert!(core::mem::align_of::<E>() == {ba}, \"@@align:E:{ba}@@\");\n"));
                    if c.e.defaultable {
                        let d = c.e.variants.iter().find(|v| v.default).unwrap();
                        app.push_str(&format!("    fn _default_is_marked() -> bool {{ <E as Default>::default() == E::{} }}\n", d.name));
                    }
                    app.push_str("}\n");
                    let mut files: BTreeMap<String, String> = b.files.clone();
                    files.get_mut("m.rs").unwrap().push_str(&app);
                    rcases.push(RCase::new(files));
                    rowner.push(j);
                }
            }
        }
        rep.count(&format!("compiled_ps{ps}"), rcases.len() as u64);
        match check_cases(&rcases, target, 400) {
            Err(e) => {
                rep.machinery(format!("{e:#}"));
                return rep.finish();
            }
            Ok((diags, stats)) => {
                rep.count("rustc_invocations", stats.rustc_invocations as u64);
                for (ci, ds) in diags.iter().enumerate() {
                    if ds.is_empty() {
                        continue;
                    }
                    let j = rowner[ci];
                    let (input, _) = &outs[j];
                    let d = &ds[0];
                    let label = d.rendered.split("@@").nth(1).map(String::from).unwrap_or_else(|| format!("{}:{}", d.code, d.message));
                    let key = if d.rendered.contains("@@") { format!("assert_failed:{}", label.split(':').next().unwrap()) } else { format!("compile_error:{}", d.code) };
                    rep.violation(Violation {
                        key,
                        features: vec![format!("base:{}", base_name(&all[idxs[j]].e))],
                        input: input.clone(),
                        ps,
                        detail: format!("{label}\n{}", ds.iter().map(|d| d.rendered.clone()).collect::<Vec<_>>().join("\n")),
                        locator: json!({"space": "enums", "index": idxs[j], "ps": ps}),
                    });
                }
            }
        }
        for j in (0..outs.len()).step_by((outs.len() / 3).max(1)).take(3) {
            rep.sample(json!({"ps": ps, "input": outs[j].0.modules[0].1, "verdict": outs[j].1.class(), "model_values": enum_values(&all[idxs[j]].e).iter().map(|v| v.to_string()).collect::<Vec<_>>()}));
        }
        if only_idx.is_some() {
            println!("{}", outs[0].0.render());
            let failed = !rep.violations.is_empty();
            for v in &rep.violations {
                println!("{}: {}", v.key, v.detail);
            }
            println!("replay: {}", if failed { "still failing" } else { "passes" });
            return failed as i32;
        }
    }
    rep.extra.insert("space_size_per_width".into(), json!(all.len()));
    rep.finish()
}
