pub mod c03;
pub mod c08;
pub mod c09;
pub mod c10;
pub mod c11;
pub mod c14;
pub mod graphs;
pub mod layout_rustc;
