pub mod c03;
pub mod layout_rustc;
