pub mod c03;
pub mod c08;
pub mod layout_rustc;
