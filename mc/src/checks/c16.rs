//! C16 — calling conventions are the declared ones, or the documented defaults.
//! E1 over functions in impl and vftable blocks through inheritance chains; oracle S on the
//! unmodified output, plus R on i686-pc-windows-msvc (where all seven conventions are real).

use serde_json::{json, Value};

use crate::{pipe, report::*, rustc_oracle::*, spec::*, synx, util};

const CCS: &[Option<&str>] = &[None, Some("C"), Some("cdecl"), Some("stdcall"), Some("fastcall"), Some("thiscall"), Some("vectorcall"), Some("system"), Some("pascal")];
const VALID: &[&str] = &["C", "cdecl", "stdcall", "fastcall", "thiscall", "vectorcall", "system"];

#[derive(Clone, Debug)]
struct Case {
    cc_v: Option<&'static str>,
    recv_v: Recv,
    cc_impl: Option<&'static str>,
    recv_impl: Recv,
    depth: usize,
    placeholders: bool,
    /// the first derived level re-declares slot `v` with another convention than the base
    derived_differs: bool,
    /// convention of the functions the derived levels add (quick: the same as `cc_v`)
    cc_d: Option<&'static str>,
    /// which level's type the address-bound impl function belongs to
    impl_level: usize,
    /// arrangement of each function's attributes (address / index / convention), see spec::Printer::attr_order
    arr: u8,
}

fn cases() -> Vec<Case> {
    let thorough = std::env::var("VERIF_TIER").as_deref() == Ok("thorough");
    let mut out = vec![];
    for cc_v in CCS {
        for recv_v in [Recv::None, Recv::Const, Recv::Mut] {
            for cc_impl in CCS {
                for recv_impl in [Recv::None, Recv::Const, Recv::Mut] {
                    for depth in 1..=3 {
                        for placeholders in [false, true] {
                            out.push(Case { cc_v: *cc_v, recv_v, cc_impl: *cc_impl, recv_impl, depth, placeholders, derived_differs: false, cc_d: *cc_v, impl_level: 0, arr: 0 });
                            if thorough && depth >= 2 {
                                // the derived levels' own functions carry an independent convention, and the
                                // impl function sits on the most derived type
                                for cc_d in CCS {
                                    if cc_d != cc_v {
                                        out.push(Case { cc_v: *cc_v, recv_v, cc_impl: *cc_impl, recv_impl, depth, placeholders, derived_differs: false, cc_d: *cc_d, impl_level: depth - 1, arr: 0 });
                                    }
                                }
                            }
                        }
                    }
                }
            }
            // a derived level that declares the inherited slot with a different convention
            for depth in 2..=3 {
                for placeholders in [false, true] {
                    out.push(Case { cc_v: *cc_v, recv_v, cc_impl: None, recv_impl: Recv::Const, depth, placeholders, derived_differs: true, cc_d: *cc_v, impl_level: 0, arr: 0 });
                }
            }
        }
    }
    // the convention written before / after the function's other attributes and in its own bracket
    let arrs: &[u8] = if thorough { &[1, 2, 3] } else { &[1] };
    let base: Vec<Case> = out.iter().filter(|c| c.cc_d == c.cc_v && c.impl_level == 0 && (c.cc_v.is_some() || c.cc_impl.is_some())).cloned().collect();
    for arr in arrs {
        for c in &base {
            if !thorough && !(c.placeholders || c.depth == 1) {
                continue;
            }
            out.push(Case { arr: *arr, ..c.clone() });
        }
    }
    out
}

fn expected(cc: Option<&str>, recv: Recv) -> String {
    match cc {
        Some(c) => c.to_string(),
        None if recv != Recv::None => "thiscall".into(),
        None => "system".into(),
    }
}

fn vfuncs(c: &Case, level: usize) -> Vec<FuncS> {
    let mut v = FuncS::new("v");
    v.recv = c.recv_v;
    v.cc = c.cc_v.map(String::from);
    if c.derived_differs && level >= 1 {
        // any convention other than the base's effective one
        let base = expected(c.cc_v, c.recv_v);
        v.cc = Some(if base == "stdcall" { "fastcall".to_string() } else { "stdcall".to_string() });
    }
    v.args = vec![("a".into(), MTy::b("u32"))];
    v.ret = Some(MTy::b("u32"));
    let mut w = FuncS::new("w");
    w.recv = Recv::Mut;
    if c.placeholders {
        w.index = Some(2);
    }
    let mut fs = vec![v, w];
    for l in 1..=level {
        let mut d = FuncS::new(&format!("d{l}"));
        d.recv = Recv::Const;
        d.cc = c.cc_d.map(String::from);
        if c.placeholders {
            // after the base's trailing placeholder slot
            d.index = Some(2 + 2 * l as i128);
        }
        fs.push(d);
    }
    fs
}

fn input_of(c: &Case) -> pipe::Input {
    let mut items = vec![];
    let names = ["Base", "D1", "D2"];
    for level in 0..c.depth {
        let mut t = TypeS::new(names[level]);
        t.vft = Some(VftS { size: if c.placeholders { Some(4 + 2 * level as i128) } else { None }, funcs: vfuncs(c, level) });
        if level == 0 {
            t.fields = vec![FieldS::new("x", MTy::b("u8").cptr())];
        } else {
            t.fields = vec![FieldS::new("base", MTy::user(names[level - 1])).based()];
        }
        items.push(Item::Type(t));
    }
    let mut f = FuncS::new("f");
    f.recv = c.recv_impl;
    f.cc = c.cc_impl.map(String::from);
    f.address = Some(0x1000);
    f.args = vec![("a".into(), MTy::b("u32"))];
    items.push(Item::Impl { name: names[c.impl_level].into(), funcs: vec![f] });
    to_input_arranged(&[ModuleS::new("m").with(items)], c.arr)
}

fn judge(c: &Case, text: &str) -> Option<(String, String)> {
    let fi = match synx::file_info(text) {
        Ok(f) => f,
        Err(e) => return Some(("output_unreadable".into(), e)),
    };
    let names = ["Base", "D1", "D2"];
    let ev = expected(c.cc_v, c.recv_v);
    for level in 0..c.depth {
        let vt = format!("{}Vftable", names[level]);
        let Some(s) = fi.struct_(&vt) else {
            return Some(("vftable_struct_missing".into(), vt));
        };
        let abi_of = |field: &str| -> Option<String> {
            s.fields.iter().find(|f| f.name == field).and_then(|f| {
                let ty: syn::Type = syn::parse_str(&f.ty).ok()?;
                synx::abis_in(&ty).first().cloned()
            })
        };
        let mut wants = vec![("v".to_string(), ev.clone()), ("w".to_string(), "thiscall".to_string())];
        for l in 1..=level {
            // the functions added at each level always take &self
            wants.push((format!("d{l}"), expected(c.cc_d, Recv::Const)));
        }
        for (field, want) in &wants {
            let got = abi_of(field);
            if got.as_deref() != Some(want.as_str()) {
                return Some(("vftable_slot_convention".into(), format!("{vt}.{field}: expected extern \"{want}\", emitted {got:?}")));
            }
        }
        // every other slot is a placeholder (whatever it is called): thiscall; with an index gap and a
        // declared size there are two of them per level more than the functions
        let placeholders: Vec<&str> = s.fields.iter().map(|f| f.name.as_str()).filter(|n| !wants.iter().any(|(w, _)| w == n)).collect();
        if c.placeholders && placeholders.len() < 2 {
            return Some(("placeholder_slot_convention".into(), format!("{vt}: expected placeholder slots for the index gap and the declared size, fields are {:?}", s.fields.iter().map(|f| &f.name).collect::<Vec<_>>())));
        }
        for field in placeholders {
            let got = abi_of(field);
            if got.as_deref() != Some("thiscall") {
                return Some(("placeholder_slot_convention".into(), format!("{vt}.{field}: expected extern \"thiscall\", emitted {got:?}")));
            }
        }
    }
    let ei = expected(c.cc_impl, c.recv_impl);
    match fi.method(names[c.impl_level], "f") {
        None => return Some(("wrapper_missing".into(), format!("{}::f", names[c.impl_level]))),
        Some(f) => {
            if f.abis_in_body != vec![ei.clone()] {
                return Some(("wrapper_convention".into(), format!("{}::f: expected extern \"{ei}\", body has {:?}", names[c.impl_level], f.abis_in_body)));
            }
        }
    }
    None
}

/// Inputs for C13: without receiver-less virtual functions (their wrappers cannot name a
/// vftable to dispatch through; outside the documented fragment).
pub fn all_inputs() -> Vec<pipe::Input> {
    cases().iter().filter(|c| c.recv_v != Recv::None && c.impl_level == 0 && c.cc_d == c.cc_v && c.arr == 0).map(input_of).collect()
}

pub fn run(tier: &str, only: Option<&Value>) -> i32 {
    let mut rep = Report::new("C16", tier);
    let all = cases();
    rep.rule = "E1: convention in {absent, C, cdecl, stdcall, fastcall, thiscall, vectorcall, system, an invalid name} for a virtual function (receiver &self / &mut self) and independently for an address-bound impl function (no receiver / &self / &mut self), through inheritance chains of depth 1..3 that re-declare the slot, with and without placeholder slots (index gap and declared table size), the convention written after (and, reversed, before) the function's address / index attribute; oracle: ABI strings parsed with syn from the unmodified output; accepted outputs compiled unmodified for i686-pc-windows-msvc. Thorough: the functions added by derived levels carry an independent convention from the same nine, and the impl function sits on the most derived type. distinct = distinct (vfunc convention, receiver, impl convention, receiver, depth, placeholders)".into();
    rep.assumptions = vec!["rustc nightly's acceptance of an ABI string on i686-pc-windows-msvc (feature abi_vectorcall enabled) shows it is a real convention there".into()];
    let only_i = only.map(|l| (l["index"].as_u64().unwrap_or(0) as usize, l["ps"].as_u64().unwrap_or(8) as usize));
    for ps in [4usize, 8] {
        if matches!(only_i, Some((_, p)) if p != ps) {
            continue;
        }
        let idxs: Vec<usize> = match only_i {
            Some((i, _)) => vec![i],
            None => (0..all.len()).collect(),
        };
        let outs = util::par_map(idxs.len(), |j, _| {
            let c = &all[idxs[j]];
            let input = input_of(c);
            let v = pipe::run(&input, ps);
            let invalid = [c.cc_v, c.cc_impl, if c.depth >= 2 { c.cc_d } else { None }].iter().any(|cc| cc.is_some_and(|x| !VALID.contains(&x))) || c.derived_differs;
            let viol = match &v {
                pipe::Verdict::Panic(p) => Some(("panic".to_string(), p.clone())),
                pipe::Verdict::ParseErr(..) => Some(("harness_parse_error".to_string(), v.err_text())),
                pipe::Verdict::Ok(_) if c.derived_differs && [c.cc_v].iter().all(|cc| cc.map_or(true, |x| VALID.contains(&x))) => Some(("convention_differs_between_base_and_derived_vftable".to_string(), "a derived vftable re-declares an inherited slot with another calling convention and is accepted".to_string())),
                pipe::Verdict::Ok(_) if invalid => Some(("unknown_convention_accepted".to_string(), "an unknown calling convention name was accepted".to_string())),
                pipe::Verdict::Err(e) if !invalid => Some(("valid_input_rejected".to_string(), e.clone())),
                pipe::Verdict::Err(_) => None,
                pipe::Verdict::Ok(b) => judge(c, &b.files["m.rs"]),
            };
            (input, v, viol)
        });
        let mut rcases = vec![];
        let mut rown = vec![];
        for (j, (input, v, viol)) in outs.iter().enumerate() {
            let c = &all[idxs[j]];
            rep.states += 1;
            rep.traces += 1;
            rep.evaluations += 1;
            rep.transitions += c.depth as u64 + 1;
            rep.count(if v.is_ok() { "accepted" } else { "rejected" }, 1);
            rep.distinct_str(&format!("{:?}", c));
            if let Some((key, detail)) = viol {
                rep.violation(Violation { key: key.clone(), features: vec![], input: input.clone(), ps, detail: detail.clone(), locator: json!({"space": "conventions", "index": idxs[j], "ps": ps}) });
            } else if let (4, Some(b), true) = (ps, v.built(), c.recv_v != Recv::None) {
                rcases.push(RCase::new(b.files.clone()));
                rown.push(j);
            }
            if j % 997 == 0 {
                rep.sample(json!({"ps": ps, "input": input.render(), "verdict": v.class()}));
            }
        }
        if ps == 4 {
            rep.count("compiled_unmodified_for_i686", rcases.len() as u64);
            match check_cases(&rcases, Target::I686Msvc, 200) {
                Err(e) => rep.machinery(format!("{e:#}")),
                Ok((diags, _)) => {
                    for (ci, ds) in diags.iter().enumerate() {
                        if ds.is_empty() {
                            continue;
                        }
                        // only ABI complaints are C16's business; the rest is C13's
                        let abi: Vec<&Diag> = ds.iter().filter(|d| d.message.contains("ABI") || d.message.contains("calling convention") || d.code == "E0570" || d.code == "E0703").collect();
                        if abi.is_empty() {
                            rep.count(&format!("not_compilable_for_other_reasons_{}_(judged_by_C13)", ds[0].code), 1);
                            if std::env::var("VERIF_DEBUG").is_ok() { eprintln!("{}", ds[0].rendered); }
                            continue;
                        }
                        let j = rown[ci];
                        rep.violation(Violation { key: "convention_rejected_by_rustc_on_i686".into(), features: vec![], input: outs[j].0.clone(), ps, detail: abi[0].rendered.clone(), locator: json!({"space": "conventions", "index": idxs[j], "ps": ps}) });
                    }
                }
            }
        }
    }
    if only.is_some() {
        for v in &rep.violations {
            println!("{}\n{}: {}", v.input.render(), v.key, v.detail);
        }
        let failed = !rep.violations.is_empty();
        println!("replay: {}", if failed { "still failing" } else { "passes" });
        return failed as i32;
    }
    rep.finish()
}
