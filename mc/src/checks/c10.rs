//! C10 — resolution succeeds exactly when names exist and by-value embedding is acyclic.
//! E1 over dependency graphs (+ E2 over schedules for the small ones, see C09).

use std::collections::BTreeSet;

use serde_json::{json, Value};

use crate::{checks::graphs::*, pipe, report::*, sched, synx, util};

/// The types an error message says could not be resolved. The wording is not part of the property: the
/// current list syntax is read as such; any other wording is scanned for the generated type paths
/// (`m<i>::T<j>`), leaving out a clause that lists the types that *were* resolved.
fn parse_failed_types(err: &str) -> Option<BTreeSet<String>> {
    if let Some(at) = err.find("failed on types: [") {
        let start = at + "failed on types: [".len();
        let end = err[start..].find(']')? + start;
        return Some(
            err[start..end]
                .split(',')
                .map(|s| s.trim().trim_matches('"').to_string())
                .filter(|s| !s.is_empty())
                .collect(),
        );
    }
    let lower = err.to_lowercase();
    let cut = ["resolved types", "already resolved", "were resolved"].iter().filter_map(|k| lower.find(k)).filter(|at| !lower[..*at].trim_end().ends_with("un") && !lower[..*at].ends_with("not ")).min().unwrap_or(err.len());
    let text = &err[..cut];
    let mut out = BTreeSet::new();
    let b = text.as_bytes();
    let mut i = 0;
    while i < b.len() {
        // m<digits>::T<digits>, not preceded by an identifier character
        if b[i] == b'm' && (i == 0 || !(b[i - 1].is_ascii_alphanumeric() || b[i - 1] == b'_')) {
            let mut j = i + 1;
            while j < b.len() && b[j].is_ascii_digit() {
                j += 1;
            }
            if j > i + 1 && text[j..].starts_with("::T") {
                let mut k = j + 3;
                while k < b.len() && b[k].is_ascii_digit() {
                    k += 1;
                }
                if k > j + 3 {
                    out.insert(text[i..k].to_string());
                    i = k;
                    continue;
                }
            }
        }
        i += 1;
    }
    if out.is_empty() {
        None
    } else {
        Some(out)
    }
}

fn check_one(g: &GraphCase, ps: usize) -> (pipe::Verdict, Option<(String, String)>) {
    let v = pipe::run(&g.input, ps);
    let viol = match &v {
        pipe::Verdict::Panic(p) => Some(("panic".to_string(), p.clone())),
        pipe::Verdict::ParseErr(..) => Some(("harness_parse_error".to_string(), v.err_text())),
        pipe::Verdict::Ok(b) => {
            if !g.model_ok() {
                Some((
                    "accepted_with_unresolvable_types".to_string(),
                    format!("model: unresolvable {:?} other {:?}", g.unresolved, g.other_reject),
                ))
            } else {
                // every declared type and field is in the output with the declared type
                let mut problem = None;
                for (tpath, fname, rust) in &g.expect_fields {
                    let (m, t) = tpath.split_once("::").unwrap();
                    let Some(text) = b.files.get(&format!("{m}.rs")) else {
                        problem = Some(("type_left_out".to_string(), format!("no output file for module {m}")));
                        break;
                    };
                    let fi = match synx::file_info(text) {
                        Ok(f) => f,
                        Err(e) => {
                            problem = Some(("output_unreadable".to_string(), e));
                            break;
                        }
                    };
                    let Some(s) = fi.struct_(t) else {
                        problem = Some(("type_left_out".to_string(), format!("{tpath} missing from output")));
                        break;
                    };
                    match s.fields.iter().find(|f| &f.name == fname) {
                        None => {
                            problem = Some(("field_left_out".to_string(), format!("{tpath}.{fname} missing")));
                            break;
                        }
                        Some(f) if &f.ty != rust => {
                            problem = Some(("reference_changed".to_string(), format!("{tpath}.{fname}: expected `{rust}`, emitted `{}`", f.ty)));
                            break;
                        }
                        _ => {}
                    }
                }
                problem
            }
        }
        pipe::Verdict::Err(e) => {
            if g.model_ok() {
                Some(("rejected_resolvable_graph".to_string(), e.clone()))
            } else if g.other_reject.is_none() {
                match parse_failed_types(e) {
                    Some(set) if set == g.unresolved => None,
                    Some(set) => Some(("error_lists_wrong_types".to_string(), format!("model {:?} pyxis {:?}", g.unresolved, set))),
                    None => Some(("error_without_type_list".to_string(), e.clone())),
                }
            } else {
                None
            }
        }
    };
    (v, viol)
}

pub fn run(tier: &str, only: Option<&Value>) -> i32 {
    let mut rep = Report::new("C10", tier);
    let all = graph_inputs(tier, false);
    let elsewhere = undefined_elsewhere();
    rep.rule = "E1: every dependency graph over n<=3 types (4 thorough) with one field each = (by value | array | #[base] | pointer) x (any of the n types incl. itself | undefined name) or a built-in, every module assignment up to renaming (<=3 modules, with the needed imports); two-field graphs over a reduced alphabet; chains of length 1..12 declared forward/backward/interleaved and spread over modules; by-value cycles of length 1..6, pointer cycles, cycles broken by one pointer; undefined names in enum base / parameter / return type / extern value; the generated vftable name in every position and relation to its owner; a module whose path equals the path of a type of its parent module. Oracle: fixpoint model of resolvability; on Ok every declared field is in the output with the declared type (syn); on Err the listed types equal the model's set. Small graphs, and the inputs that refer to a generated vftable name, are additionally run under all resolution schedules (E2). distinct = distinct (family, n, model verdict, pyxis verdict, size of unresolved set)".into();
    rep.assumptions = vec!["types with more than one field are #[packed] so that alignment rules do not mask resolution verdicts".into()];
    let only_i = only.map(|l| (l["space"].as_str().unwrap_or("").to_string(), l["index"].as_u64().unwrap_or(0) as usize, l["ps"].as_u64().unwrap_or(8) as usize));
    for ps in [4usize, 8] {
        if matches!(&only_i, Some((_, _, p)) if *p != ps) {
            continue;
        }
        let idxs: Vec<usize> = match &only_i {
            Some((s, i, _)) if s == "graphs" => vec![*i],
            Some(_) => vec![],
            None => (0..all.len()).collect(),
        };
        let outs = util::par_map(idxs.len(), |j, _| {
            let (v, viol) = check_one(&all[idxs[j]], ps);
            (v.class(), viol)
        });
        for (j, (class, viol)) in outs.into_iter().enumerate() {
            let g = &all[idxs[j]];
            rep.states += 1;
            rep.traces += 1;
            rep.evaluations += 1;
            rep.transitions += g.edges.iter().map(|e| e.len() as u64).sum::<u64>();
            rep.count(&format!("family_{}", g.family), 1);
            rep.count(if g.model_ok() { "model_resolvable" } else { "model_unresolvable" }, 1);
            rep.distinct_str(&format!("{}|{}|{}|{}|{}", g.family, g.n, g.model_ok(), class, g.unresolved.len()));
            if let Some((key, detail)) = viol {
                rep.violation(Violation { key, features: vec![format!("family:{}", g.family)], input: g.input.clone(), ps, detail, locator: json!({"space": "graphs", "index": idxs[j], "ps": ps}) });
            } else if j % 5003 == 0 {
                rep.sample(json!({"ps": ps, "input": g.input.render(), "verdict": class, "model_unresolved": g.unresolved}));
            }
        }
        // undefined names outside fields
        for (k, (input, pos, defined)) in elsewhere.iter().enumerate() {
            if matches!(&only_i, Some((s, i, _)) if s != "elsewhere" || *i != k) {
                continue;
            }
            let v = pipe::run(input, ps);
            rep.states += 1;
            rep.traces += 1;
            rep.evaluations += 1;
            rep.transitions += 1;
            rep.distinct_str(&format!("elsewhere|{pos}|{defined}|{}", v.class()));
            let viol = match (&v, defined) {
                (pipe::Verdict::Panic(p), _) => Some(("panic".to_string(), p.clone())),
                (pipe::Verdict::Ok(_), false) => Some((format!("undefined_name_accepted:{pos}"), "the build succeeded although the name `Nope` has no definition".to_string())),
                (pipe::Verdict::Ok(b), true) => {
                    // the reference must be present in the output
                    let text = &b.files["m0.rs"];
                    let want = if pos.starts_with("generated_vftable") { "crate::m0::FooVftable" } else { "crate::m0::T1" };
                    if *pos != "enum_base" && !synx::normalise(text).contains(want) {
                        Some((format!("reference_dropped:{pos}"), format!("`{want}` does not occur in the output:\n{text}")))
                    } else {
                        None
                    }
                }
                (pipe::Verdict::Err(e), true) | (pipe::Verdict::ParseErr(_, e, _, _), true) => Some((format!("defined_name_rejected:{pos}"), e.clone())),
                _ => None,
            };
            if let Some((key, detail)) = viol {
                rep.violation(Violation { key, features: vec![format!("position:{pos}")], input: input.clone(), ps, detail, locator: json!({"space": "elsewhere", "index": k, "ps": ps}) });
            }
        }
        // a module whose path is also the path of a type of its parent module: its own definitions
        // are still definitions (by value, by pointer, in signatures, as enum base users)
        for (k, (child, want)) in [
            ("pub type Shade {\n    pub v: u32,\n}\npub type Pair {\n    pub a: Shade,\n    pub b: [Shade; 3],\n}\n", "crate::ui::Widget::Shade"),
            ("pub type Pair {\n    pub a: *const Shade,\n}\npub type Shade {\n    pub v: *const Pair,\n}\n", "crate::ui::Widget::Shade"),
            ("pub enum Shade: u32 {\n    A,\n}\npub type Pair {\n    pub a: Shade,\n    pub pad: u32,\n}\nimpl Pair {\n    #[address(0x100)]\n    pub fn f(&self, s: *const Shade) -> Shade;\n}\n", "crate::ui::Widget::Shade"),
        ]
        .iter()
        .enumerate()
        {
            if matches!(&only_i, Some((s, i, _)) if s != "module_like_type" || *i != k) {
                continue;
            }
            for parent_first in [true, false] {
                let parent = ("ui".to_string(), "pub type Widget {\n    pub x: u32,\n}\n".to_string());
                let kid = ("ui::Widget".to_string(), child.to_string());
                let input = pipe::Input { modules: if parent_first { vec![parent, kid] } else { vec![kid, parent] } };
                let v = pipe::run(&input, ps);
                rep.states += 1;
                rep.traces += 1;
                rep.evaluations += 1;
                rep.transitions += 1;
                rep.distinct_str(&format!("module_like_type|{k}|{}", v.class()));
                let viol = match &v {
                    pipe::Verdict::Panic(p) => Some(("panic".to_string(), p.clone())),
                    pipe::Verdict::Ok(b) => {
                        let text = b.files.get("ui/Widget.rs").cloned().unwrap_or_default();
                        (!synx::normalise(&text).contains(want)).then(|| ("reference_dropped:own_module_named_like_a_type".to_string(), format!("`{want}` does not occur in the output:\n{text}")))
                    }
                    other => Some(("defined_name_rejected:own_module_named_like_a_type".to_string(), other.err_text())),
                };
                if let Some((key, detail)) = viol {
                    rep.violation(Violation { key, features: vec!["position:own_module_named_like_a_type".into()], input, ps, detail, locator: json!({"space": "module_like_type", "index": k, "ps": ps}) });
                }
            }
        }
        // by-value cycles through vftable owners
        if only_i.is_none() {
            for (k, input) in cycles_with_vftables().iter().enumerate() {
                let v = pipe::run(input, ps);
                rep.states += 1;
                rep.traces += 1;
                rep.evaluations += 1;
                rep.transitions += 1;
                rep.distinct_str(&format!("vcycle|{k}|{}", v.class()));
                let viol = match &v {
                    pipe::Verdict::Ok(_) => Some(("by_value_cycle_accepted".to_string(), "a by-value cycle through vftable owners was accepted".to_string())),
                    pipe::Verdict::Panic(p) => Some(("panic".to_string(), p.clone())),
                    _ => None,
                };
                if let Some((key, detail)) = viol {
                    rep.violation(Violation { key, features: vec!["family:value_cycle_with_vftables".into()], input: input.clone(), ps, detail, locator: json!({"space": "vcycles", "index": k, "ps": ps}) });
                }
            }
        }
        // E2 on the small graphs: same verdict under every schedule
        if only_i.is_none() || matches!(&only_i, Some((s, _, _)) if s == "sched") {
            let small = graph_inputs(tier, true);
            let sidx: Vec<usize> = match &only_i {
                Some((_, i, _)) => vec![*i],
                None => (0..small.len()).collect(),
            };
            let outs = util::par_map(sidx.len(), |j, _| sched::explore(&small[sidx[j]].input, ps, &[vec![0]], 100_000));
            for (j, ex) in outs.into_iter().enumerate() {
                let g = &small[sidx[j]];
                rep.states += ex.states;
                rep.transitions += ex.transitions;
                rep.traces += ex.executions;
                rep.evaluations += ex.executions;
                rep.count("schedule_explored_graphs", 1);
                for e in &ex.errors {
                    rep.machinery(e.clone());
                }
                let classes: BTreeSet<&str> = ex.outcomes.keys().map(|k| k.split('|').next().unwrap()).collect();
                let expected = if g.model_ok() { "ok" } else { "err" };
                if classes.len() != 1 || !classes.contains(expected) {
                    let detail = ex.outcomes.iter().map(|(k, (o, h, e))| format!("{} <- add {:?} schedule {:?} {}", k.split('|').next().unwrap(), o, h, e.lines().next().unwrap_or(""))).collect::<Vec<_>>().join("\n");
                    rep.violation(Violation { key: "verdict_depends_on_schedule_or_differs_from_model".into(), features: vec![format!("family:{}", g.family)], input: g.input.clone(), ps, detail: format!("model expects {expected}\n{detail}"), locator: json!({"space": "sched", "index": sidx[j], "ps": ps}) });
                }
            }
        }
    }
    // E2 on the inputs in which a generated vftable name is referred to (fields, signatures; the owner
    // unrelated to, embedding or deriving from the referrer): defined names, so every schedule must accept
    if only.is_none() {
        let named: Vec<pipe::Input> = elsewhere.iter().filter(|(_, pos, defined)| *defined && *pos == "generated_vftable_name").map(|(i, _, _)| i.clone()).collect();
        for ps in [4usize, 8] {
            let outs = util::par_map(named.len(), |j, _| sched::explore(&named[j], ps, &crate::checks::c09::add_orders(named[j].modules.len()), 100_000));
            for (j, ex) in outs.into_iter().enumerate() {
                rep.states += ex.states;
                rep.transitions += ex.transitions;
                rep.traces += ex.executions;
                rep.evaluations += ex.executions;
                rep.count("schedule_explored_generated_name_inputs", 1);
                let classes: BTreeSet<&str> = ex.outcomes.keys().map(|k| k.split('|').next().unwrap()).collect();
                if classes.len() != 1 || !classes.contains("ok") {
                    let detail = ex.outcomes.iter().map(|(k, (o, h, e))| format!("{} <- add {:?} schedule {:?} {}", k.split('|').next().unwrap(), o, h, e.lines().next().unwrap_or(""))).collect::<Vec<_>>().join("\n");
                    rep.violation(Violation { key: "defined_name_rejected_under_some_schedule".into(), features: vec!["position:generated_vftable_name".into()], input: named[j].clone(), ps, detail, locator: json!({"space": "sched_generated", "index": j, "ps": ps}) });
                }
            }
        }
    }
    if only.is_some() {
        for v in &rep.violations {
            println!("{}\n{}: {}", v.input.render(), v.key, v.detail);
        }
        let failed = !rep.violations.is_empty();
        println!("replay: {}", if failed { "still failing" } else { "passes" });
        return failed as i32;
    }
    rep.finish()
}
