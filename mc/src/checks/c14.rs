//! C14 — every declared item is emitted exactly once, in the file of its module.
//! E1 over input *directories* run through `pyxis::build` (file naming is part of the property).

use std::{
    collections::{BTreeMap, BTreeSet},
    panic::{catch_unwind, AssertUnwindSafe},
    path::PathBuf,
};

use serde_json::{json, Value};

use crate::{pipe, report::*, synx, util};

const PATHS: &[&str] = &["a", "n/c", "n/d/e", "n"];

#[derive(Clone, Debug, Default)]
struct ModContent {
    plain_type: bool,
    vft_type: bool,
    enum_: bool,
    extern_type: bool,
    extern_value: bool,
    /// backend blocks in source order: 0 rust prologue, 1 rust epilogue, 2 rust {both}, 3 cpp prologue
    backends: Vec<usize>,
    /// > 0: that many further items of every kind, with names that are prefixes of each other or differ
    /// only in case, a digit or an underscore
    crowd: usize,
}

const CROWD_TYPES: &[&str] = &["Item", "Item2", "Item10", "item", "ITEM", "Item_", "I", "It", "ItemX", "Plain2", "Plainer", "NodeVftableX"];
const CROWD_VFT: &[&str] = &["Node", "Node2", "node", "Node10"];
const CROWD_ENUMS: &[&str] = &["Kind", "Kind2", "kind", "K", "Kind10"];
const CROWD_VALUES: &[&str] = &["g", "g2", "G", "g_", "counter2", "g10"];
const CROWD_EXTERN: &[&str] = &["Ext2", "ext", "Ext10"];

#[derive(Clone, Debug)]
struct Case {
    mods: BTreeMap<String, ModContent>,
    collision: Option<&'static str>,
}

fn content_text(path: &str, c: &ModContent) -> String {
    let tag = path.replace(['/', '.'], "_");
    let mut s = String::new();
    for (k, b) in c.backends.iter().enumerate() {
        match b {
            // every block ends in a line comment: the next block must still start on its own line
            0 => s.push_str(&format!("backend rust prologue r#\"\n    pub const PROLOGUE_{tag}_{k}: u32 = {k}; // end of prologue {k}\n\"#;\n")),
            1 => s.push_str(&format!("backend rust epilogue r#\"\n    pub const EPILOGUE_{tag}_{k}: u32 = {k}; // end of epilogue {k}\n\"#;\n")),
            2 => s.push_str(&format!("backend rust {{\n    prologue r#\"\n        pub const PROLOGUE_{tag}_{k}: u32 = {k}; // end\n    \"#;\n    epilogue r#\"\n        pub const EPILOGUE_{tag}_{k}: u32 = {k}; // end\n    \"#;\n}}\n")),
            _ => s.push_str(&format!("backend cpp prologue r#\"\n    #include <cpp_only_{tag}_{k}.h>\n    struct CppOnly{k} {{}};\n\"#;\n")),
        }
    }
    if c.extern_type {
        s.push_str("#[size(12), align(4)]\nextern type Ext;\n");
    }
    if c.plain_type {
        s.push_str("pub type Plain {\n    pub x: u32,\n}\n");
    }
    if c.vft_type {
        s.push_str("pub type Virt {\n    vftable {\n        pub fn v(&self);\n    },\n    pub y: u32,\n    pub z: u32,\n}\n");
    }
    if c.enum_ {
        s.push_str("pub enum Color: u8 {\n    Red,\n    Green,\n}\n");
    }
    if c.extern_value {
        s.push_str("#[address(0x1000)]\npub extern counter: u32;\n");
    }
    if c.crowd > 0 {
        // interleaved, so that no kind is declared in one run
        for i in 0..c.crowd {
            if let Some(n) = CROWD_EXTERN.get(i) {
                s.push_str(&format!("#[size(4), align(4)]\nextern type {n};\n"));
            }
            if let Some(n) = CROWD_TYPES.get(i) {
                s.push_str(&format!("pub type {n} {{\n    pub x: u32,\n}}\n"));
            }
            if let Some(n) = CROWD_VALUES.get(i) {
                s.push_str(&format!("#[address({:#x})]\npub extern {n}: u32;\n", 0x2000 + 8 * i));
            }
            if let Some(n) = CROWD_VFT.get(i) {
                s.push_str(&format!("pub type {n} {{\n    vftable {{\n        pub fn v(&self);\n    }},\n    pub y: u32,\n    pub z: u32,\n}}\n"));
            }
            if let Some(n) = CROWD_ENUMS.get(i) {
                s.push_str(&format!("pub enum {n}: u8 {{\n    Red,\n    Green,\n}}\n"));
            }
            if let Some(n) = CROWD_TYPES.get(i) {
                s.push_str(&format!("impl {n} {{\n    #[address({:#x})]\n    pub fn f{i}(&self);\n}}\n", 0x4000 + 16 * i));
            }
        }
    }
    s
}

fn collision_text(kind: &str) -> String {
    match kind {
        "two_types_same_name" => "pub type A {\n    pub x: u32,\n}\npub type A {\n    pub y: u64,\n}\n".into(),
        "two_identical_types" => "pub type A {\n    pub x: u32,\n}\npub type A {\n    pub x: u32,\n}\n".into(),
        "type_and_enum_same_name" => "pub type A {\n    pub x: u32,\n}\npub enum A: u8 {\n    P,\n}\n".into(),
        "two_enums_same_name" => "pub enum A: u8 {\n    P,\n}\npub enum A: u16 {\n    Q,\n}\n".into(),
        "user_type_named_like_generated_vftable" => "pub type A {\n    vftable {\n        pub fn v(&self);\n    },\n}\npub type AVftable {\n    pub x: u64,\n}\n".into(),
        "user_type_named_like_generated_vftable_declared_first" => "pub type AVftable {\n    pub x: u64,\n}\npub type A {\n    vftable {\n        pub fn v(&self);\n    },\n}\n".into(),
        "two_extern_values_same_name" => "#[address(0x1000)]\npub extern g: u32;\n#[address(0x2000)]\npub extern g: u64;\n".into(),
        "type_and_extern_type_same_name" => "#[size(4), align(4)]\nextern type A;\npub type A {\n    pub x: u32,\n}\n".into(),
        "two_extern_types_same_name" => "#[size(4), align(4)]\nextern type A;\n#[size(8), align(8)]\nextern type A;\n".into(),
        "two_extern_values_same_name_not_adjacent" => "#[address(0x1000)]\npub extern g: u32;\n#[address(0x1800)]\npub extern h: u32;\n#[address(0x2000)]\npub extern g: u64;\n".into(),
        "two_types_same_name_not_adjacent" => "pub type A {\n    pub x: u32,\n}\npub type B {\n    pub x: u32,\n}\npub enum C: u8 {\n    P,\n}\npub type A {\n    pub y: u64,\n}\n".into(),
        "two_extern_types_same_name_not_adjacent" => "#[size(4), align(4)]\nextern type A;\n#[size(4), align(4)]\nextern type B;\n#[size(8), align(8)]\nextern type A;\n".into(),
        "type_and_later_enum_same_name" => "pub enum A: u8 {\n    P,\n}\npub type B {\n    pub x: u32,\n}\npub type A {\n    pub x: u32,\n}\n".into(),
        _ => unreachable!(),
    }
}

const COLLISIONS: &[&str] = &[
    "two_types_same_name",
    "two_identical_types",
    "type_and_enum_same_name",
    "two_enums_same_name",
    "user_type_named_like_generated_vftable",
    "user_type_named_like_generated_vftable_declared_first",
    "two_extern_values_same_name",
    "type_and_extern_type_same_name",
    "two_extern_types_same_name",
    "two_extern_values_same_name_not_adjacent",
    "two_types_same_name_not_adjacent",
    "two_extern_types_same_name_not_adjacent",
    "type_and_later_enum_same_name",
];

fn backend_seqs(maxlen: usize) -> Vec<Vec<usize>> {
    let mut out = vec![];
    for len in 0..=maxlen {
        for idx in 0..4usize.pow(len as u32) {
            out.push(util::decode(idx, &vec![4; len]));
        }
    }
    out
}

fn cases(tier: &str) -> Vec<Case> {
    let seqs = backend_seqs(if tier == "thorough" { 3 } else { 2 });
    let simple = ModContent { plain_type: true, ..Default::default() };
    let mut out = vec![];
    for shape in 1u32..(1 << PATHS.len()) {
        let members: Vec<&str> = PATHS.iter().enumerate().filter(|(i, _)| shape >> i & 1 == 1).map(|(_, p)| *p).collect();
        for vary in &members {
            for items in 0..32u32 {
                for seq in &seqs {
                    // the full backend menu only with two item subsets, all item subsets with two backend sequences
                    let full_items = items == 0 || items == 31;
                    let short_seq = seq.is_empty() || seq == &vec![0, 1];
                    if !(full_items || short_seq) {
                        continue;
                    }
                    let mut mods = BTreeMap::new();
                    for m in &members {
                        mods.insert(m.to_string(), simple.clone());
                    }
                    mods.insert(
                        vary.to_string(),
                        ModContent {
                            plain_type: items & 1 != 0,
                            vft_type: items & 2 != 0,
                            enum_: items & 4 != 0,
                            extern_type: items & 8 != 0,
                            extern_value: items & 16 != 0,
                            backends: seq.clone(),
                            crowd: 0,
                        },
                    );
                    out.push(Case { mods, collision: None });
                }
            }
        }
    }
    // crowded modules: many items of every kind with similar names, alone and next to other modules
    for shape in 1u32..(1 << PATHS.len()) {
        let members: Vec<&str> = PATHS.iter().enumerate().filter(|(i, _)| shape >> i & 1 == 1).map(|(_, p)| *p).collect();
        for vary in &members {
            for crowd in [2usize, 5, 12] {
                for seq in [vec![], vec![0, 1]] {
                    let mut mods = BTreeMap::new();
                    for m in &members {
                        mods.insert(m.to_string(), simple.clone());
                    }
                    mods.insert(vary.to_string(), ModContent { plain_type: true, vft_type: true, enum_: true, extern_type: true, extern_value: true, backends: seq, crowd });
                    out.push(Case { mods, collision: None });
                }
            }
        }
    }
    // directory names containing dots (no struct types in them: their paths could not be named in Rust)
    let dotted = ModContent { enum_: true, extern_value: true, backends: vec![0], ..Default::default() };
    for set in [vec!["v1.2/alpha"], vec!["game.v1/types", "game.v2/types"], vec!["a", "v1.2/alpha", "v1.2/beta"]] {
        let mut mods = BTreeMap::new();
        for p in set {
            mods.insert(p.to_string(), if p == "a" { simple.clone() } else { dotted.clone() });
        }
        out.push(Case { mods, collision: None });
    }
    for c in COLLISIONS {
        for other in [false, true] {
            let mut mods = BTreeMap::new();
            if other {
                mods.insert("n/c".to_string(), simple.clone());
            }
            mods.insert("a".to_string(), ModContent::default());
            out.push(Case { mods, collision: Some(c) });
        }
    }
    out
}

fn run_case(c: &Case, ps: usize, dir: &PathBuf) -> (pipe::Input, Result<BTreeMap<String, String>, String>) {
    let in_dir = dir.join("in");
    let out_dir = dir.join("out");
    let _ = std::fs::remove_dir_all(dir);
    std::fs::create_dir_all(&in_dir).unwrap();
    std::fs::create_dir_all(&out_dir).unwrap();
    let mut modules = vec![];
    for (path, content) in &c.mods {
        let text = match (c.collision, path.as_str()) {
            (Some(k), "a") => collision_text(k),
            _ => content_text(path, content),
        };
        let p = in_dir.join(format!("{path}.pyxis"));
        std::fs::create_dir_all(p.parent().unwrap()).unwrap();
        std::fs::write(&p, &text).unwrap();
        modules.push((path.replace('/', "::"), text));
    }
    // a file that is not an input must be ignored
    std::fs::write(in_dir.join("README.txt"), "not a pyxis file").unwrap();
    let r = catch_unwind(AssertUnwindSafe(|| pyxis::build(&in_dir, &out_dir, ps)));
    let res = match r {
        Err(_) => Err("PANIC".to_string()),
        Ok(Err(e)) => Err(format!("{e:#}")),
        Ok(Ok(())) => {
            let mut files = BTreeMap::new();
            pipe::collect_files(&out_dir, &out_dir, &mut files).unwrap();
            Ok(files)
        }
    };
    (pipe::Input { modules }, res)
}

fn judge(c: &Case, files: &BTreeMap<String, String>) -> Option<(String, String)> {
    let expected: BTreeSet<String> = c.mods.keys().map(|p| format!("{p}.rs")).collect();
    let got: BTreeSet<String> = files.keys().cloned().collect();
    if expected != got {
        return Some(("file_set_differs".into(), format!("expected {expected:?}, got {got:?}")));
    }
    for (path, content) in &c.mods {
        let tag = path.replace(['/', '.'], "_");
        let text = &files[&format!("{path}.rs")];
        let fi = match synx::file_info(text) {
            Ok(f) => f,
            Err(e) => return Some(("output_unreadable".into(), e)),
        };
        let mut want: Vec<(String, String)> = vec![];
        if content.plain_type {
            want.push(("struct".into(), "Plain".into()));
        }
        if content.vft_type {
            want.push(("struct".into(), "Virt".into()));
            want.push(("struct".into(), "VirtVftable".into()));
        }
        if content.enum_ {
            want.push(("enum".into(), "Color".into()));
        }
        if content.extern_value {
            want.push(("fn".into(), "get_counter".into()));
        }
        for i in 0..content.crowd {
            if let Some(n) = CROWD_TYPES.get(i) {
                want.push(("struct".into(), n.to_string()));
            }
            if let Some(n) = CROWD_VFT.get(i) {
                want.push(("struct".into(), n.to_string()));
                want.push(("struct".into(), format!("{n}Vftable")));
            }
            if let Some(n) = CROWD_ENUMS.get(i) {
                want.push(("enum".into(), n.to_string()));
            }
            if let Some(n) = CROWD_VALUES.get(i) {
                want.push(("fn".into(), format!("get_{n}")));
            }
        }
        let mut got: Vec<(String, String)> = fi
            .order
            .iter()
            .filter(|(k, n)| matches!(k.as_str(), "struct" | "enum") || (k == "fn" && n.starts_with("get_")))
            .cloned()
            .collect();
        want.sort();
        got.sort();
        if want != got {
            return Some(("item_multiset_differs".into(), format!("module {path}: expected {want:?}, emitted {got:?}\n{text}")));
        }
        // prologues first, epilogues last, in source order; nothing of other backends
        let mut pro = vec![];
        let mut epi = vec![];
        for (k, b) in content.backends.iter().enumerate() {
            if *b == 0 || *b == 2 {
                pro.push(format!("PROLOGUE_{tag}_{k}"));
            }
            if *b == 1 || *b == 2 {
                epi.push(format!("EPILOGUE_{tag}_{k}"));
            }
        }
        let names: Vec<&str> = fi.order.iter().map(|(_, n)| n.as_str()).collect();
        let head: Vec<&str> = names.iter().take(pro.len()).cloned().collect();
        let tail: Vec<&str> = names.iter().skip(names.len().saturating_sub(epi.len())).cloned().collect();
        if head != pro.iter().map(|s| s.as_str()).collect::<Vec<_>>() {
            return Some(("prologue_misplaced".into(), format!("module {path}: expected leading {pro:?}, items are {names:?}")));
        }
        if tail != epi.iter().map(|s| s.as_str()).collect::<Vec<_>>() {
            return Some(("epilogue_misplaced".into(), format!("module {path}: expected trailing {epi:?}, items are {names:?}")));
        }
        // (only the harness's own marker constants: the generator is free to emit constants of its own)
        let consts = fi.order.iter().filter(|(k, n)| k == "const" && (n.starts_with("PROLOGUE_") || n.starts_with("EPILOGUE_"))).count();
        if consts != pro.len() + epi.len() {
            return Some(("backend_text_duplicated_or_lost".into(), format!("module {path}: {consts} consts for {} prologues/epilogues", pro.len() + epi.len())));
        }
        if text.contains("cpp_only") || text.contains("CppOnly") {
            return Some(("foreign_backend_text_included".into(), format!("module {path}:\n{text}")));
        }
    }
    None
}

pub fn run(tier: &str, only: Option<&Value>) -> i32 {
    let mut rep = Report::new("C14", tier);
    let all = cases(tier);
    rep.rule = "E1 over input directories through pyxis::build: every non-empty subset of the module paths {a, n/c, n/d/e, n} (n both a file and a directory); in each, one module at a time ranges over every subset of item kinds {plain type, type with vftable, enum, extern type, extern value} and every sequence of <= 2 (3 thorough) backend blocks over {rust prologue, rust epilogue, rust {both}, cpp prologue}, including modules with no items; crowded modules (2 / 5 / 12 further items of every kind, names that are prefixes of each other or differ in case, a digit or an underscore, with an impl block each) in every shape; plus the collision menu (must be rejected). Oracle: directory listing and syn item multiset / order. distinct = distinct (shape, varied module, item subset, backend sequence)".into();
    let only_i = only.map(|l| (l["index"].as_u64().unwrap_or(0) as usize, l["ps"].as_u64().unwrap_or(8) as usize));
    let root = util::scratch_root().join("c14");
    for ps in [4usize, 8] {
        if matches!(only_i, Some((_, p)) if p != ps) {
            continue;
        }
        let idxs: Vec<usize> = match only_i {
            Some((i, _)) => vec![i],
            None => (0..all.len()).collect(),
        };
        let outs = util::par_map(idxs.len(), |j, tid| {
            let c = &all[idxs[j]];
            let (input, res) = run_case(c, ps, &root.join(format!("t{tid}")));
            let viol = match (&res, c.collision) {
                (Err(e), _) if e == "PANIC" => Some(("panic".to_string(), "pyxis::build panicked".to_string())),
                (Ok(files), Some(k)) => Some((format!("collision_accepted:{k}"), format!("build succeeded; files {:?}\n{}", files.keys().collect::<Vec<_>>(), files.values().next().cloned().unwrap_or_default()))),
                (Err(_), Some(_)) => None,
                (Err(e), None) => Some(("valid_input_rejected".to_string(), e.clone())),
                (Ok(files), None) => judge(c, files),
            };
            (input, res.is_ok(), viol)
        });
        for (j, (input, ok, viol)) in outs.into_iter().enumerate() {
            let c = &all[idxs[j]];
            rep.states += 1;
            rep.traces += 1;
            rep.evaluations += 1;
            rep.transitions += c.mods.len() as u64;
            rep.count(if ok { "accepted" } else { "rejected" }, 1);
            if c.collision.is_some() {
                rep.count("collision_cases", 1);
            }
            rep.distinct_str(&input.render());
            if let Some((key, detail)) = viol {
                rep.violation(Violation { key, features: c.collision.map(|k| vec![format!("collision:{k}")]).unwrap_or_default(), input, ps, detail, locator: json!({"space": "dirs", "index": idxs[j], "ps": ps}) });
            } else if j % 3001 == 0 {
                rep.sample(json!({"ps": ps, "input": input.render(), "accepted": ok}));
            }
        }
    }
    if only.is_some() {
        for v in &rep.violations {
            println!("{}\n{}: {}", v.input.render(), v.key, v.detail);
        }
        let failed = !rep.violations.is_empty();
        println!("replay: {}", if failed { "still failing" } else { "passes" });
        return failed as i32;
    }
    rep.finish()
}
