//! C19 — a module's bindings do not depend on unrelated definitions.
//! E1 over pairs (S, S'), S' = S plus one or two unrelated changes; oracle: the observed
//! module's output file is byte-identical.

use serde_json::{json, Value};

use crate::{pipe::{self, Input}, report::*, util};

/// Base input sets; the observed module is always `o`.
pub fn bases() -> Vec<(&'static str, Vec<(String, String)>)> {
    let o_std = "pub type O {\n    vftable {\n        pub fn v(&self, p: *const X) -> u32;\n    },\n    pub n: *mut O,\n    pub x: X,\n}\nimpl O {\n    #[address(0x1000)]\n    pub fn f(&self, e: E) -> *const X;\n}\npub enum E: u32 {\n    A,\n    B = 4,\n}\npub type D {\n    #[base]\n    pub base: O,\n}\npub type XExt {\n    pub q: u32,\n}\npub type UsesExt {\n    pub p: *const EKind,\n    pub e: [XExt; 2],\n}\npub enum EKind: u16 {\n    K,\n}\n#[address(0x2000)]\npub extern gx: *mut X;\n";
    let x_local = "pub type X {\n    pub a: u32,\n    pub b: u32,\n}\n";
    let a_mod = "pub type X {\n    pub a: u32,\n    pub b: u32,\n    pub c: u32,\n    pub d: u32,\n}\npub type Helper {\n    pub h: u32,\n}\n";
    vec![
        ("standalone", vec![("o".into(), format!("{x_local}{o_std}"))]),
        ("module_import", vec![("a".into(), a_mod.into()), ("o".into(), format!("use a;\n{o_std}"))]),
        ("type_import", vec![("a".into(), a_mod.into()), ("o".into(), format!("use a::X;\n{o_std}"))]),
        ("nested_import", vec![("n::a".into(), a_mod.into()), ("o".into(), format!("use n::a;\n{o_std}"))]),
        ("transitive", vec![("b".into(), "pub type Y {\n    pub q: u32,\n    pub r: u32,\n}\n".into()), ("a".into(), format!("use b;\npub type X {{\n    pub y: Y,\n}}\n")), ("o".into(), format!("use a;\n{o_std}"))]),
        ("extern_type", vec![("o".into(), format!("#[size(8), align(4)]\nextern type X;\n{o_std}"))]),
        // the observed module nested below a parent path `p` (no module `p` exists in the base set)
        ("nested_standalone", vec![("p::o".into(), format!("{x_local}{o_std}"))]),
        ("nested_module_import", vec![("p::a".into(), a_mod.into()), ("p::o".into(), format!("use p::a;\n{o_std}"))]),
        ("nested_type_import", vec![("a".into(), a_mod.into()), ("p::o".into(), format!("use a::X;\n{o_std}"))]),
        // a nested module that defines, and only uses, a type named like itself (`p::o::o`)
        ("nested_self_named", vec![("p::o".into(), "pub type o {\n    pub y: u32,\n}\npub type Holder {\n    pub p: *mut o,\n    pub q: u32,\n    pub r: u32,\n}\n".into())]),
        // a by-name import followed by a module import that supplies another name (`Y`)
        (
            "type_then_module_import",
            vec![
                ("a".into(), a_mod.into()),
                ("b".into(), "pub type Y {\n    pub q: u32,\n    pub r: u32,\n}\n".into()),
                ("o".into(), format!("use a::X;\nuse b;\n{o_std}pub type UsesY {{\n    pub y: Y,\n    pub p: *const Y,\n}}\n")),
            ],
        ),
    ]
}

/// path of the observed module of a base set and its output file
fn observed(base: &[(String, String)]) -> (&'static str, &'static str) {
    if base.iter().any(|(p, _)| p == "p::o") {
        ("p::o", "p/o.rs")
    } else {
        ("o", "o.rs")
    }
}

/// Unrelated module bodies (the module path is chosen separately).
fn unrelated() -> Vec<(&'static str, String)> {
    vec![
        ("same_names", "pub type O {\n    pub z: u8,\n}\npub type X {\n    pub z: u16,\n}\npub type D {\n    pub z: u8,\n}\n".into()),
        ("same_names_used_by_bare_name", "pub type X {\n    pub z: [u64; 4],\n}\npub type O {\n    pub x: X,\n    pub p: *const D,\n}\npub type D {\n    pub o: [O; 2],\n}\npub enum E: u8 {\n    Z = 9,\n}\nimpl O {\n    #[address(0x9000)]\n    pub fn f(&self, e: E) -> *const X;\n}\n#[address(0x7000)]\npub extern gx: *mut X;\n".into()),
        ("named_like_generated_vftable", "pub type OVftable {\n    pub z: u64,\n}\n".into()),
        ("vftable_owner_same_name", "pub type O {\n    vftable {\n        pub fn other(&self);\n        pub fn v(&self);\n    },\n}\n".into()),
        ("extern_types_same_names", "#[size(64), align(8)]\nextern type X;\n#[size(3), align(1)]\nextern type O;\n".into()),
        ("enum_same_name", "pub enum E: u8 {\n    Z = 9,\n}\npub enum X: u16 {\n    Q,\n}\n".into()),
        ("impl_for_same_named_type", "pub type O {\n    pub z: u32,\n}\nimpl O {\n    #[address(0x9000)]\n    pub fn f(&self);\n    #[address(0x9010)]\n    pub fn extra(&self);\n}\n".into()),
        ("backend_blocks", "backend rust prologue r#\"\n    pub const UNRELATED: u32 = 1;\n\"#;\nbackend rust epilogue r#\"\n    pub const UNRELATED_END: u32 = 2;\n\"#;\npub type Z {\n    pub z: u8,\n}\n".into()),
        ("extern_values_same_name", "#[address(0x7000)]\npub extern gx: u64;\n".into()),
        ("imports_observed_module", "use o;\npub type User {\n    pub o: O,\n    pub d: *const D,\n}\n".into()),
        ("imports_observed_type", "use o::O;\nuse o::E;\npub type User {\n    pub o: [O; 2],\n    pub e: E,\n}\n".into()),
        ("derives_from_observed", "use o;\npub type Sub {\n    vftable {\n        pub fn v(&self, p: *const X) -> u32;\n        pub fn extra(&self);\n    },\n    #[base]\n    pub base: D,\n}\n".into()),
        ("module_doc_and_empty", "//! an unrelated module\n".into()),
        ("big_aligned", "#[align(16)]\npub type X {\n    pub a: u128,\n}\n".into()),
        ("singleton_same_name", "#[singleton(0x5000)]\npub type O {\n    pub z: u32,\n}\n".into()),
        // a type whose name is the observed module's last path segment (meaningful in its parent module `p`)
        ("type_named_like_observed_module", "pub type o {\n    pub z: [u64; 2],\n}\npub type X {\n    pub z: u8,\n}\npub type O {\n    pub q: *const o,\n}\n".into()),
        ("names_supplied_by_imports", "pub type Y {\n    pub z: [u64; 4],\n}\npub type X {\n    pub z: [u64; 3],\n}\npub type Helper {\n    pub z: u8,\n}\n".into()),
    ]
}

// (`a::X` is also the path of a type that some base sets import by name; `b::Y` that of a type reached through `use b;`)
const UPATHS: &[&str] = &["z", "q::r", "o::sub", "a::sub", "aa", "p", "p::z", "p::o::sub", "a::X", "b::Y"];

#[derive(Clone, Debug)]
struct Case {
    base: usize,
    changes: Vec<(usize, usize)>, // (unrelated body, path)
    first: bool,                  // unrelated modules added before the base modules
}

fn cases() -> Vec<Case> {
    let nb = bases().len();
    let nu = unrelated().len();
    let mut out = vec![];
    for base in 0..nb {
        for first in [false, true] {
            for u in 0..nu {
                for p in 0..UPATHS.len() {
                    out.push(Case { base, changes: vec![(u, p)], first });
                }
            }
            for u1 in 0..nu {
                for u2 in 0..nu {
                    if u1 == u2 {
                        continue;
                    }
                    for (p1, p2) in [(0, 1), (2, 0), (4, 3), (5, 6), (7, 5), (8, 9)] {
                        out.push(Case { base, changes: vec![(u1, p1), (u2, p2)], first });
                    }
                }
            }
        }
    }
    out
}

fn build_input(base: &[(String, String)], c: &Case, un: &[(&'static str, String)]) -> Input {
    let (opath, _) = observed(base);
    let mut extra: Vec<(String, String)> = c.changes.iter().map(|(u, p)| (UPATHS[*p].to_string(), un[*u].1.replace("use o;", &format!("use {opath};")).replace("use o::", &format!("use {opath}::")))).collect();
    // an unrelated module cannot sit at a path the base set already uses
    extra.retain(|(p, _)| !base.iter().any(|(bp, _)| bp == p));
    let mut modules = vec![];
    if c.first {
        modules.append(&mut extra);
    }
    modules.extend(base.iter().cloned());
    modules.append(&mut extra);
    Input { modules }
}

pub fn run(tier: &str, only: Option<&Value>) -> i32 {
    let mut rep = Report::new("C19", tier);
    let bs = bases();
    let un = unrelated();
    let all = cases();
    rep.rule = "E1 over pairs (S, S'): S one of eleven base input sets around an observed module `o` (stand-alone; importing a module, a type, a nested module, transitively; using an extern type), S' = S plus one unrelated module (17 bodies chosen to collide by name with o's types, its generated vftable struct, its enum, its extern value, to import o, to derive from it, ...) at one of ten module paths (incl. child paths of o and of an imported module, and the paths of types that o imports by name or reaches through a module import), or plus two such modules, added before or after S; also S' = S plus an unreferenced type in an imported module; and, through pyxis::build on real directories, an observed file at depth 1..3 plus one unrelated file below, beside or above it. Pairs whose S' is rejected are skipped and counted. Oracle: o's output file byte-identical. distinct = distinct S' texts".into();
    let only_i = only.map(|l| (l["index"].as_u64().unwrap_or(0) as usize, l["ps"].as_u64().unwrap_or(8) as usize));
    for ps in [4usize, 8] {
        if matches!(only_i, Some((_, p)) if p != ps) {
            continue;
        }
        let baseline: Vec<pipe::Verdict> = bs.iter().map(|(_, m)| pipe::run(&Input { modules: m.clone() }, ps)).collect();
        // a base set that is rejected cannot be observed: the pairs built on it are skipped and the run is
        // inconclusive (machinery status) unless another base set shows a violation
        let mut dead_bases = vec![];
        for (i, b) in baseline.iter().enumerate() {
            if !b.is_ok() {
                rep.machinery(format!("base set {} is rejected at ps {ps}: {}", bs[i].0, b.err_text()));
                dead_bases.push(i);
            }
        }
        if dead_bases.len() == bs.len() {
            return rep.finish();
        }
        let idxs: Vec<usize> = match only_i {
            Some((i, _)) => vec![i],
            None => (0..all.len()).collect(),
        };
        let idxs: Vec<usize> = idxs.into_iter().filter(|i| !dead_bases.contains(&all[*i].base)).collect();
        let outs = util::par_map(idxs.len(), |j, _| {
            let c = &all[idxs[j]];
            let input = build_input(&bs[c.base].1, c, &un);
            let v = pipe::run(&input, ps);
            let ofile = observed(&bs[c.base].1).1;
            let base_file = &baseline[c.base].built().unwrap().files[ofile];
            let viol = match &v {
                pipe::Verdict::Panic(p) => Some(("panic".to_string(), p.clone())),
                pipe::Verdict::Ok(b) => match b.files.get(ofile) {
                    None => Some(("observed_file_missing".to_string(), format!("files: {:?}", b.files.keys().collect::<Vec<_>>()))),
                    Some(f) if f != base_file => Some(("observed_module_output_changed".to_string(), format!("--- without the unrelated change ---\n{base_file}\n--- with it ---\n{f}"))),
                    _ => None,
                },
                _ => None,
            };
            (input, v.class(), v.err_text(), viol)
        });
        for (j, (input, class, err, viol)) in outs.into_iter().enumerate() {
            let c = &all[idxs[j]];
            rep.states += 1;
            rep.traces += 1;
            rep.evaluations += 1;
            rep.transitions += c.changes.len() as u64;
            rep.distinct_str(&format!("{ps}{}", input.render()));
            if class == "ok" {
                rep.count("pairs_compared", 1);
            } else {
                rep.count("pairs_skipped_changed_set_rejected", 1);
                rep.count(&format!("skipped_because_{}", err.split('`').next().unwrap_or("").trim().replace(' ', "_").chars().take(40).collect::<String>()), 1);
            }
            let features = c.changes.iter().map(|(u, p)| format!("{}@{}", un[*u].0, UPATHS[*p])).chain(std::iter::once(format!("base:{}", bs[c.base].0))).collect();
            if let Some((key, detail)) = viol {
                rep.violation(Violation { key, features, input, ps, detail, locator: json!({"space": "pairs", "index": idxs[j], "ps": ps}) });
            } else if j % 1501 == 0 {
                rep.sample(json!({"ps": ps, "changed_set": input.render(), "verdict": class}));
            }
        }
        // an unreferenced type added to an imported module
        if only_i.is_none() {
            for (bi, (name, mods)) in bs.iter().enumerate() {
                if dead_bases.contains(&bi) {
                    continue;
                }
                for (mi, (mpath, mtext)) in mods.iter().enumerate() {
                    if mpath == "o" || mpath == "p::o" {
                        continue;
                    }
                    for extra in [
                        "pub type Fresh {\n    pub q: u8,\n}\n",
                        "pub type FreshV {\n    vftable {\n        pub fn z(&self);\n    },\n}\n",
                        "pub enum FreshE: u8 {\n    K,\n}\n",
                        // names the observed module defines itself (it neither imports nor references these)
                        "pub type XExt {\n    pub q: [u64; 4],\n}\n",
                        "pub enum EKind: u8 {\n    Z,\n}\npub type OVftable {\n    pub z: u64,\n}\n",
                        "pub type UsesExt {\n    pub z: u8,\n}\npub type D {\n    pub z: u8,\n}\npub type O {\n    pub z: u8,\n}\n",
                    ] {
                        let mut m2 = mods.clone();
                        m2[mi].1 = format!("{mtext}{extra}");
                        let input = Input { modules: m2 };
                        let v = pipe::run(&input, ps);
                        rep.states += 1;
                        rep.traces += 1;
                        rep.evaluations += 1;
                        rep.transitions += 1;
                        let ofile = observed(mods).1;
                        let base_file = &baseline[bi].built().unwrap().files[ofile];
                        if let pipe::Verdict::Ok(b) = &v {
                            rep.count("pairs_compared", 1);
                            if &b.files[ofile] != base_file {
                                rep.violation(Violation { key: "observed_module_output_changed".into(), features: vec![format!("base:{name}"), "unreferenced_type_in_imported_module".into()], input, ps, detail: format!("--- before ---\n{base_file}\n--- after ---\n{}", b.files[ofile]), locator: json!({"space": "imported_extra", "index": bi, "ps": ps}) });
                            }
                        } else {
                            rep.count("pairs_skipped_changed_set_rejected", 1);
                        }
                    }
                }
            }
        }
    }
    // the same question through `pyxis::build` on real directories (file discovery order, `add_file`): an
    // unrelated file below, beside or above the observed module's file leaves its output file unchanged
    if only.is_none() {
        let root = util::scratch_root().join("c19-dirs");
        let observed_text = "pub type Widget {\n    vftable {\n        pub fn draw(&self);\n    },\n    pub x: u32,\n    pub y: u32,\n}\npub enum Kind: u8 {\n    A,\n    B,\n}\n#[address(0x1000)]\npub extern g: u32;\n";
        let unrelated_text = "pub type Widget {\n    pub z: [u64; 3],\n}\npub type Other {\n    pub w: *const Widget,\n}\n";
        let build_dir = |tag: &str, files: &[(String, &str)], ps: usize| -> Result<std::collections::BTreeMap<String, String>, String> {
            let dir = root.join(tag);
            let _ = std::fs::remove_dir_all(&dir);
            let (i, o) = (dir.join("in"), dir.join("out"));
            std::fs::create_dir_all(&o).map_err(|e| e.to_string())?;
            for (p, t) in files {
                let f = i.join(format!("{p}.pyxis"));
                std::fs::create_dir_all(f.parent().unwrap()).map_err(|e| e.to_string())?;
                std::fs::write(&f, t).map_err(|e| e.to_string())?;
            }
            match std::panic::catch_unwind(std::panic::AssertUnwindSafe(|| pyxis::build(&i, &o, ps))) {
                Err(_) => Err("PANIC".into()),
                Ok(Err(e)) => Err(format!("{e:#}")),
                Ok(Ok(())) => {
                    let mut files = std::collections::BTreeMap::new();
                    pipe::collect_files(&o, &o, &mut files).map_err(|e| e.to_string())?;
                    Ok(files)
                }
            }
        };
        for ps in [4usize, 8] {
            for obs in ["ui", "n/ui", "n/m/ui"] {
                let parent = obs.rsplit_once('/').map(|(p, _)| format!("{p}/")).unwrap_or_default();
                let base = vec![(obs.to_string(), observed_text)];
                let Ok(alone) = build_dir("base", &base, ps) else {
                    rep.machinery(format!("directory base set {obs} is rejected at ps {ps}"));
                    continue;
                };
                let ofile = format!("{obs}.rs");
                for upath in [format!("{obs}/detail"), format!("{obs}/detail/deep"), format!("{parent}aaa"), format!("{parent}zzz"), "aaa".to_string(), "zzz/deep".to_string(), format!("{parent}u")] {
                    if upath == obs {
                        continue;
                    }
                    let mut files = base.clone();
                    files.push((upath.clone(), unrelated_text));
                    rep.states += 1;
                    rep.traces += 1;
                    rep.evaluations += 1;
                    rep.transitions += 1;
                    rep.distinct_str(&format!("dir|{obs}|{upath}|{ps}"));
                    let input = Input { modules: files.iter().map(|(p, t)| (p.replace('/', "::"), t.to_string())).collect() };
                    match build_dir("changed", &files, ps) {
                        Err(e) if e == "PANIC" => rep.violation(Violation { key: "panic".into(), features: vec!["through_pyxis_build".into()], input, ps, detail: "pyxis::build panicked".into(), locator: json!({"space": "dirs", "ps": ps}) }),
                        Err(_) => rep.count("pairs_skipped_changed_set_rejected", 1),
                        Ok(f) => {
                            rep.count("pairs_compared", 1);
                            if f.get(&ofile) != alone.get(&ofile) {
                                rep.violation(Violation { key: "observed_module_output_changed".into(), features: vec!["through_pyxis_build".into()], input, ps, detail: format!("observed file {ofile} with the unrelated file {upath}.pyxis present:\n--- without ---\n{}\n--- with ---\n{}", alone.get(&ofile).cloned().unwrap_or_default(), f.get(&ofile).cloned().unwrap_or("<no such file>".into())), locator: json!({"space": "dirs", "ps": ps}) });
                            }
                        }
                    }
                }
            }
        }
    }
    if only.is_some() {
        for v in &rep.violations {
            println!("{}\n{}: {}", v.input.render(), v.key, v.detail);
        }
        let failed = !rep.violations.is_empty();
        println!("replay: {}", if failed { "still failing" } else { "passes" });
        return failed as i32;
    }
    rep.finish()
}
