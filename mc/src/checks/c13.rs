//! C13 — the emitted files form a Rust crate that type-checks.
//! The accepted cases of the other description spaces, plus a dedicated derive/packing space,
//! are type-checked in full (bodies included) by rustc on the host (conventions normalised)
//! and on i686-pc-windows-msvc (as emitted).

use std::collections::BTreeMap;

use serde_json::{json, Value};

use crate::{checks, checks::hier, pipe::{self, Input}, report::*, rustc_oracle::*, spaces::*, spec::*, util};

struct Src {
    family: &'static str,
    input: Input,
    /// text appended to an emitted file (extern type definitions): (file, text)
    supply: Vec<(String, String)>,
    features: Vec<String>,
}

const KINDS: &[&str] = &["u32", "*const u8", "[u16; 4]", "[u8; 32]", "Plain", "Marked", "En", "EnDef", "Ext", "*mut Marked", "[Marked; 2]", "[[Plain; 2]; 2]", "[[Marked; 2]; 2]", "[*const Plain; 2]", "[[En; 2]; 3]"];

/// derive / packing space: marker subsets x field kinds x same-module / cross-module
fn marker_space() -> Vec<Src> {
    let mut out = vec![];
    for markers in 0..16u32 {
        for (ki, kind) in KINDS.iter().enumerate() {
            for cross in [false, true] {
                // the helper definitions carry the same markers ("with the same markers") or none
                let helpers = |m: u32| -> String {
                    let attrs = |m: u32, packed_ok: bool| {
                        let mut a = vec![];
                        if m & 1 != 0 { a.push("copyable"); }
                        if m & 2 != 0 { a.push("cloneable"); }
                        if m & 4 != 0 { a.push("defaultable"); }
                        if m & 8 != 0 && packed_ok { a.push("packed"); }
                        if a.is_empty() { String::new() } else { format!("#[{}]\n", a.join(", ")) }
                    };
                    format!(
                        "pub type Plain {{\n    pub a: u32,\n}}\n{}pub type Marked {{\n    pub a: u32,\n    pub b: u32,\n}}\npub enum En: u32 {{\n    A,\n    B,\n}}\n{}pub enum EnDef: u32 {{\n    {}A,\n    B,\n}}\n#[size(8), align(4)]\nextern type Ext;\n",
                        attrs(m, true),
                        attrs(m & 7, false),
                        if m & 4 != 0 { "#[default]\n    " } else { "" }
                    )
                };
                let mut a = vec![];
                if markers & 1 != 0 { a.push("copyable"); }
                if markers & 2 != 0 { a.push("cloneable"); }
                if markers & 4 != 0 { a.push("defaultable"); }
                if markers & 8 != 0 { a.push("packed"); }
                let attrs = if a.is_empty() { String::new() } else { format!("#[{}]\n", a.join(", ")) };
                let t = format!("{attrs}pub type T {{\n    pub x: {kind},\n    pub y: {kind},\n}}\n");
                let ext = "#[repr(C)] #[derive(Clone, Copy, Default)] pub struct Ext(pub [u32; 2]);\n".to_string();
                let (input, supply) = if cross {
                    (Input { modules: vec![("lib".into(), helpers(markers)), ("m".into(), format!("use lib;\n{t}"))] }, vec![("lib.rs".to_string(), ext)])
                } else {
                    (Input::single(format!("{}{t}", helpers(markers))), vec![("m.rs".to_string(), ext)])
                };
                let mut features = vec![format!("kind:{ki}:{kind}")];
                for m in &a {
                    features.push(format!("marker:{m}"));
                }
                if markers & 8 != 0 && matches!(*kind, "Plain" | "Marked" | "[Marked; 2]" | "[[Plain; 2]; 2]" | "[[Marked; 2]; 2]") {
                    features.push("packed_embeds_user_struct".into());
                }
                out.push(Src { family: "markers", input, supply, features });
            }
        }
    }
    out
}

/// module documentation x rust prologue x epilogue around one type and one extern value: all are
/// valid inputs and must give a crate that compiles (the prologue's inner attributes and items, the
/// module's `#![doc]` lines and the generated items have to come out in an order rustc accepts)
fn doc_and_backend_space() -> Vec<Src> {
    let mut out = vec![];
    let docs = ["", "//! one line\n", "//! first\n//!\n//! third\n"];
    let prologues = [None, Some("use core::mem::size_of;"), Some("pub struct Helper(pub u32);"), Some("#![allow(dead_code)]"), Some("#![allow(dead_code)]\npub const K: usize = 4;\npub struct Helper(pub u32);"), Some("// only a comment")];
    let epilogues = [None, Some("pub fn helper() -> usize { ::core::mem::size_of::<T>() }"), Some("impl T { pub fn extra(&self) -> u32 { self.a } }")];
    for d in docs {
        for p in prologues {
            for e in epilogues {
                for braces in [false, true] {
                    let mut t = String::from(d);
                    match (p, e, braces) {
                        (None, None, _) => {}
                        (p, e, true) => {
                            t.push_str("backend rust {\n");
                            if let Some(p) = p { t.push_str(&format!("    prologue r#\"\n{p}\n\"#;\n")); }
                            if let Some(e) = e { t.push_str(&format!("    epilogue r#\"\n{e}\n\"#;\n")); }
                            t.push_str("}\n");
                        }
                        (p, e, false) => {
                            if let Some(p) = p { t.push_str(&format!("backend rust prologue r#\"\n{p}\n\"#;\n")); }
                            if let Some(e) = e { t.push_str(&format!("backend rust epilogue r#\"\n{e}\n\"#;\n")); }
                        }
                    }
                    t.push_str("/// a type\npub type T {\n    pub a: u32,\n    pub b: u32,\n}\n#[address(0x1000)]\npub extern gv: u32;\n");
                    out.push(Src { family: "docs_and_backends", input: Input::single(t), supply: vec![], features: vec!["must_accept".into()] });
                }
            }
        }
    }
    out
}

/// declared names that look like generated ones, and unnamed fields that share an offset: whatever is
/// accepted has to compile (no duplicate field, method or item names)
fn generated_name_space() -> Vec<Src> {
    let texts = [
        "pub type T {\n    pub a: u32,\n    #[address(8)]\n    pub _field_4: u32,\n}\n",
        "pub type T {\n    pub _field_4: u32,\n    #[address(8)]\n    pub b: u32,\n}\n",
        "pub type T {\n    pub _field_0: u32,\n    _: u32,\n}\n",
        "pub type E {\n}\npub type Z {\n    _: E,\n    _: u32,\n}\n",
        "pub type E {\n}\npub type Z {\n    pub a: u32,\n    _: [E; 3],\n    _: E,\n    _: u32,\n}\n",
        "#[size(16)]\npub type T {\n    pub _field_8: u64,\n}\n",
        "pub type T {\n    vftable {\n        pub fn v(&self);\n    },\n    pub _field_8: u32,\n    #[address(16)]\n    pub b: u32,\n}\n",
        "pub type T {\n    vftable {\n        pub fn a(&self);\n        #[index(2)]\n        pub fn _vfunc_3(&self);\n        #[index(5)]\n        pub fn b(&self);\n    },\n    pub x: *const u8,\n}\n",
        "pub type T {\n    vftable {\n        #[index(1)]\n        pub fn _vfunc_0(&self);\n    },\n    pub x: *const u8,\n}\n",
        "#[size(4)]\npub type T {\n    #[size(4)]\n    vftable {\n        pub fn _vfunc_3(&self);\n        pub fn _vfunc_2(&self);\n    },\n}\n",
        "pub type T {\n    vftable {\n        pub fn a(&self);\n        pub fn b(&self);\n        #[index(4)]\n        pub fn _vfunc_3(&self);\n        #[index(7)]\n        pub fn _vfunc_6(&self);\n        pub fn _vfunc_5(&self);\n    },\n    pub x: *const u8,\n}\n",
        "pub type T {\n    pub x: u32,\n    pub y: u32,\n}\npub type _T_size_check {\n    pub x: u32,\n    pub y: u32,\n}\n",
        "pub type T {\n    pub x: u32,\n    pub y: u32,\n}\nimpl T {\n    #[address(0x10)]\n    pub fn as_ref(&self);\n    #[address(0x20)]\n    pub fn vftable(&self);\n}\n",
        "#[address(0x10)]\npub extern x: u32;\n#[address(0x20)]\npub extern get_x: u32;\n",
    ];
    texts.iter().map(|t| Src { family: "generated_names", input: Input::single(t.to_string()), supply: vec![], features: vec![] }).collect()
}

fn sources(tier: &str) -> Vec<Src> {
    let mut out = marker_space();
    out.extend(doc_and_backend_space());
    out.extend(generated_name_space());
    let plain = |family: &'static str, input: Input| Src { family, input, supply: vec![], features: vec![] };
    for i in checks::c17::all_inputs(tier).into_iter().step_by(if tier == "thorough" { 1 } else { 7 }) {
        out.push(plain("carry_over", i));
    }
    for i in checks::c16::all_inputs().into_iter().step_by(if tier == "thorough" { 1 } else { 5 }) {
        out.push(plain("conventions", i));
    }
    for i in checks::c05::all_inputs().into_iter().step_by(if tier == "thorough" { 1 } else { 4 }) {
        out.push(plain("impl_blocks", i));
    }
    // markers on a type whose first base carries the vftable (region 0 is then the base itself)
    for markers in 0..8u32 {
        for base_markers in [0u32, markers] {
            let attrs = |m: u32| {
                let mut a = vec![];
                if m & 1 != 0 { a.push("copyable"); }
                if m & 2 != 0 { a.push("cloneable"); }
                if m & 4 != 0 { a.push("defaultable"); }
                if a.is_empty() { String::new() } else { format!("#[{}]\n", a.join(", ")) }
            };
            for with_block in [false, true] {
                // defaultable needs defaultable fields: the vftable pointer is not one, so only without it
                if (markers & 4 != 0 || base_markers & 4 != 0) && true {
                    continue;
                }
                let t = format!(
                    "{}pub type VBase {{\n    vftable {{\n        pub fn v(&self);\n    }},\n    pub a: u32,\n    pub b: u32,\n}}\n{}pub type T {{\n{}    #[base]\n    pub base: VBase,\n    pub x: u32,\n    pub y: u32,\n}}\n",
                    attrs(base_markers),
                    attrs(markers),
                    if with_block { "    vftable {\n        pub fn v(&self);\n        pub fn w(&self);\n    },\n" } else { "" }
                );
                out.push(Src { family: "markers", input: Input::single(t), supply: vec![], features: vec!["inherited_vftable".into()] });
            }
        }
    }
    for i in checks::c11::all_inputs(tier).into_iter().step_by(if tier == "thorough" { 3 } else { 23 }) {
        let mut s = plain("scoping", i);
        if s.input.modules.iter().any(|(_, t)| t.contains("pub type u32 ")) {
            s.features.push("user_type_named_like_builtin".into());
        }
        if s.input.modules.iter().any(|(p, t)| p == "a" && t.contains("extern type X;")) {
            s.supply.push(("a.rs".into(), "#[repr(C)] #[derive(Clone, Copy, Default)] pub struct X(pub u32);\n".into()));
        }
        out.push(s);
    }
    for i in checks::c08::all_inputs(tier).into_iter().step_by(if tier == "thorough" { 1 } else { 9 }) {
        out.push(plain("enums", i));
    }
    for i in checks::c07::all_inputs(tier).into_iter().step_by(if tier == "thorough" { 1 } else { 3 }) {
        out.push(plain("hierarchies_with_functions", i));
    }
    for n in 1..=4 {
        for h in hier::shapes(n) {
            out.push(plain("hierarchy_shapes", to_input(&[hier::module_of(&h)])));
        }
    }
    for (_, mods) in checks::c19::bases() {
        let mut s = plain("module_sets", Input { modules: mods });
        if s.input.modules.iter().any(|(p, t)| p == "o" && t.contains("extern type X;")) {
            s.supply.push(("o.rs".into(), "#[repr(C)] #[derive(Clone, Copy, Default)] pub struct X(pub [u32; 2]);\n".into()));
        }
        out.push(s);
    }
    out
}

fn classify(d: &Diag) -> String {
    if d.code.is_empty() {
        format!("rustc:{}", d.message.chars().take(40).collect::<String>().replace(' ', "_"))
    } else {
        format!("rustc:{}", d.code)
    }
}

type Row = (&'static str, String, usize, Input, Vec<String>);

/// Type-checks the collected crates, reports violations, and empties the collections.
fn flush(rep: &mut Report, ps: usize, target: Target, rows: &mut Vec<Row>, rcases: &mut Vec<RCase>, owners: &mut Vec<Vec<usize>>, dedup: &mut BTreeMap<u64, usize>) -> Result<(), ()> {
    for r in rows.iter().step_by((rows.len() / 2).max(1)).take(2) {
        rep.sample(json!({"ps": ps, "family": r.0, "input": r.3.render()}));
    }
        // cases with and without shared files cannot share a batch: split
    let (with_shared, without): (Vec<usize>, Vec<usize>) = (0..rcases.len()).partition(|i| !rcases[*i].shared.is_empty());
    for group in [with_shared, without] {
        let cs: Vec<RCase> = group.iter().map(|i| rcases[*i].clone()).collect();
        rep.count(&format!("crates_type_checked_ps{ps}"), cs.len() as u64);
        for c in &cs {
            rep.distinct.insert(util::fnv(&format!("{ps}{:?}", c.files)));
        }
        match check_cases(&cs, target, 250) {
            Err(e) => {
                rep.machinery(format!("{e:#}"));
                return Err(());
            }
            Ok((diags, stats)) => {
                rep.count("rustc_invocations", stats.rustc_invocations as u64);
                for (k, ds) in diags.iter().enumerate() {
                    if ds.is_empty() {
                        continue;
                    }
                    for &row in &owners[group[k]] {
                        let (family, space, idx, input, features) = &rows[row];
                        let mut f = features.clone();
                        f.push(format!("family:{family}"));
                        if ds[0].code == "E0081" {
                            f.push("duplicate_enum_values".into());
                        }
                        rep.violation(Violation {
                            key: classify(&ds[0]),
                            features: f,
                            input: input.clone(),
                            ps,
                            detail: format!("{}\n--- emitted ---\n{}", ds.iter().take(4).map(|d| d.rendered.clone()).collect::<Vec<_>>().join("\n"), cs[k].files.values().cloned().collect::<Vec<_>>().join("\n// ----\n")),
                            locator: json!({"space": space, "index": idx, "ps": ps}),
                        });
                    }
                }
            }
        }
    }
    rows.clear();
    rcases.clear();
    owners.clear();
    dedup.clear();
    Ok(())
}

pub fn run(tier: &str, only: Option<&Value>) -> i32 {
    let mut rep = Report::new("C13", tier);
    rep.rule = "Every accepted case of: the layout space with auxiliary module (C01/C02; quick: without the three-field block over plain scalars, which C01 / C02 compile), a dedicated space of every subset of {copyable, cloneable, defaultable, packed} x fifteen field kinds (scalars, pointers, arrays up to 32, user structs with and without the same markers, enums with and without a default, extern type, pointer / array / nested arrays of plain and marked structs and enums, array of pointers) x same-module / cross-module, module documentation x rust prologue (imports, items, inner attributes) x epilogue in both backend forms (all must be accepted), declared names that look like generated ones and unnamed fields sharing an offset, the carry-over (C17), convention (C16), scoping (C11), enum (C08), hierarchy (C06/C07) and module-set (C19) spaces (quick: strided subsets of the larger ones) — is assembled into a crate (modules mirroring the input tree, extern types supplied) and type-checked in full by rustc for x86_64 (calling conventions normalised to \"C\") and, unmodified, for i686-pc-windows-msvc. Oracle: zero errors; deny-by-default lints count, warnings do not. distinct = distinct emitted crates".into();
    rep.assumptions = vec!["outside the fragment by construction: non-power-of-two alignments and arrays longer than 32 in defaultable types are not generated".into()];
    let src = sources(tier);
    let layout = LayoutSpace::new_reduced(tier, true).without_scalar_triples();
    let only_i = only.map(|l| (l["space"].as_str().unwrap_or("").to_string(), l["index"].as_u64().unwrap_or(0) as usize, l["ps"].as_u64().unwrap_or(8) as usize));
    for ps in [4usize, 8] {
        if matches!(&only_i, Some((_, _, p)) if *p != ps) {
            continue;
        }
        let target = Target::for_ps(ps);
        // (family, index, input, features, files)
        let mut rows: Vec<Row> = vec![];
        let mut rcases: Vec<RCase> = vec![];
        let mut dedup: BTreeMap<u64, usize> = BTreeMap::new();
        let mut owners: Vec<Vec<usize>> = vec![];
        // description sources
        let sidx: Vec<usize> = match &only_i {
            Some((s, i, _)) if s == "sources" => vec![*i],
            Some(_) => vec![],
            None => (0..src.len()).collect(),
        };
        let outs = util::par_map(sidx.len(), |j, _| pipe::run(&src[sidx[j]].input, ps));
        for (j, v) in outs.into_iter().enumerate() {
            let s = &src[sidx[j]];
            rep.states += 1;
            rep.traces += 1;
            rep.evaluations += 1;
            rep.transitions += 1;
            match v {
                pipe::Verdict::Ok(b) => {
                    rep.count(&format!("accepted_{}", s.family), 1);
                    let mut files = b.files.clone();
                    for (f, t) in &s.supply {
                        if let Some(x) = files.get_mut(f) {
                            x.push_str("\n// ---- extern types supplied by the harness ----\n");
                            x.push_str(t);
                        }
                    }
                    let h = util::fnv(&files.iter().map(|(k, v)| format!("{k}\n{v}")).collect::<String>());
                    let row = rows.len();
                    rows.push((s.family, "sources".into(), sidx[j], s.input.clone(), s.features.clone()));
                    match dedup.get(&h) {
                        Some(ci) => owners[*ci].push(row),
                        None => {
                            dedup.insert(h, rcases.len());
                            rcases.push(RCase::new(files));
                            owners.push(vec![row]);
                        }
                    }
                }
                pipe::Verdict::Panic(p) => rep.violation(Violation { key: "panic".into(), features: vec![], input: s.input.clone(), ps, detail: p, locator: json!({"space": "sources", "index": sidx[j], "ps": ps}) }),
                other if s.features.iter().any(|f| f == "must_accept") => rep.violation(Violation { key: "valid_input_rejected".into(), features: vec![format!("family:{}", s.family)], input: s.input.clone(), ps, detail: other.err_text(), locator: json!({"space": "sources", "index": sidx[j], "ps": ps}) }),
                _ => rep.count(&format!("rejected_{}", s.family), 1),
            }
        }
        if flush(&mut rep, ps, target, &mut rows, &mut rcases, &mut owners, &mut dedup).is_err() {
            return rep.finish();
        }
        // the auxiliary module of the layout space is shared by all its cases: judged once, on its own
        if only_i.is_none() {
            if let Some(v) = checks::layout_rustc::aux_module_violation(&layout, ps, target, "C13") {
                rep.violation(v);
                return rep.finish();
            }
        }
        // layout space, in chunks
        let chunks: Vec<std::ops::Range<usize>> = match &only_i {
            Some((s, i, _)) if s == "layout" => vec![*i..*i + 1],
            Some(_) => vec![],
            None => (0..layout.len()).step_by(2_000_000).map(|lo| lo..(lo + 2_000_000).min(layout.len())).collect(),
        };
        for chunk in chunks {
            let lidx: Vec<usize> = chunk.collect();
            let outs = util::par_map(lidx.len(), |j, _| {
                let case = layout.get(lidx[j], ps as u64);
                let input = to_input(&layout.modules_for(&case.ty));
                match pipe::run(&input, ps) {
                    pipe::Verdict::Ok(b) => {
                        let mut features = vec![];
                        if case.ty.packed {
                            features.push("marker:packed".to_string());
                            if case.ty.fields.iter().any(|f| matches!(f.ty.by_value_user(), Some("Inner4") | Some("Inner16") | Some("InnerV") | Some("Empty8"))) {
                                features.push("packed_embeds_user_struct".to_string());
                            }
                        }
                        Some((input, b, features))
                    }
                    _ => None,
                }
            });
            for (j, o) in outs.into_iter().enumerate() {
                rep.states += 1;
                rep.traces += 1;
                rep.evaluations += 1;
                rep.transitions += 1;
                let Some((input, b, features)) = o else { continue };
                rep.count("accepted_layout", 1);
                let mut files = b.files.clone();
                let mut shared = BTreeMap::new();
                if let Some(mut aux) = files.remove("aux.rs") {
                    aux.push_str(aux_extern_rust());
                    shared.insert("aux.rs".to_string(), aux);
                }
                let h = util::fnv(&files["m.rs"]);
                let row = rows.len();
                rows.push(("layout", "layout".into(), lidx[j], input, features));
                match dedup.get(&h) {
                    Some(ci) => owners[*ci].push(row),
                    None => {
                        dedup.insert(h, rcases.len());
                        rcases.push(RCase { files, prelude: String::new(), shared });
                        owners.push(vec![row]);
                    }
                }
            }
            if flush(&mut rep, ps, target, &mut rows, &mut rcases, &mut owners, &mut dedup).is_err() {
                return rep.finish();
            }
        }
    }
    if only.is_some() {
        for v in &rep.violations {
            println!("{}\n{}: {}", v.input.render(), v.key, v.detail);
        }
        let failed = !rep.violations.is_empty() || !rep.machinery_errors.is_empty();
        println!("replay: {}", if failed { "still failing" } else { "passes" });
        return failed as i32;
    }
    rep.finish()
}
