//! C12 — every input yields a result: builds never panic or hang.
//! E1 over robustness menus + E3 token sequences continued into `build`, evaluated in worker
//! subprocesses (address-space limit, watchdog) so that an abort, an endless loop or unbounded
//! allocation is observed by the parent instead of killing the check.

use std::{
    io::{BufRead, BufReader, Write},
    os::unix::fs::FileExt,
    process::{Command, Stdio},
    sync::{
        atomic::{AtomicU64, Ordering},
        Arc,
    },
};

use pyxis::grammar::ItemPath;
use serde_json::{json, Value};

use crate::{checks::{graphs, tokens}, pipe::{self, Input}, report::*, util};

#[derive(Clone, Debug)]
pub enum Kind {
    /// text through parse -> add_module -> build -> emit
    Build(Input),
    /// a sequence of public API calls: (module text index, path kind) then build
    Api(Vec<(usize, usize)>),
}

#[derive(Clone, Debug)]
pub struct Case {
    pub family: &'static str,
    pub kind: Kind,
}

const B: &[&str] = &[
    "0", "1", "2", "3", "7", "8", "255", "256", "65535", "65536", "2147483647", "2147483648", "4294967295", "4294967296", "9223372036854775807", "-1", "-2", "-2147483648", "-9223372036854775808",
    "9223372036854775808", "18446744073709551615", "18446744073709551616",
];
/// positions that ask for a table of that many slots: positive values are capped (DESIGN §5)
const B_TABLE: &[&str] = &["0", "1", "2", "3", "7", "8", "255", "256", "65535", "65536", "-1", "-2", "-2147483648", "-9223372036854775808", "9223372036854775808", "18446744073709551616"];

fn numeric_templates() -> Vec<(&'static str, bool)> {
    // {N} first number, {M} second number; bool: table position (use B_TABLE for N)
    vec![
        ("#[size({N})]\npub type T {\n    pub a: u32,\n}\n", false),
        ("#[align({N})]\npub type T {\n    pub a: u32,\n}\n", false),
        ("#[size({N}), align({M})]\npub type T {\n    pub a: u8,\n}\n", false),
        ("#[singleton({N})]\npub type T {\n    pub a: u32,\n}\n", false),
        ("pub type T {\n    #[address({N})]\n    pub a: u32,\n}\n", false),
        ("#[size({M})]\npub type T {\n    #[address({N})]\n    pub a: u32,\n}\n", false),
        ("pub type T {\n    pub a: u8,\n    #[address({N})]\n    pub b: u8,\n    #[address({M})]\n    pub c: u8,\n}\n", false),
        ("pub type T {\n    pub a: [u32; {N}],\n}\n", false),
        ("pub type T {\n    pub a: [[u64; {N}]; {M}],\n}\n", false),
        ("pub type T {\n    pub a: unknown<{N}>,\n    pub b: unknown<{M}>,\n}\n", false),
        ("#[packed]\npub type T {\n    pub a: [u8; {N}],\n    pub b: [u16; {M}],\n}\n", false),
        ("pub type T {\n    #[size({N})]\n    vftable {\n        pub fn v(&self);\n    },\n}\n", true),
        ("pub type T {\n    vftable {\n        #[index({N})]\n        pub fn v(&self);\n        pub fn w(&self);\n    },\n}\n", true),
        ("pub type T {\n    #[size({M})]\n    vftable {\n        #[index({N})]\n        pub fn v(&self);\n    },\n}\n", true),
        ("pub type T {\n    pub a: u32,\n}\nimpl T {\n    #[address({N})]\n    pub fn f(&self);\n    #[index({M})]\n    #[address(16)]\n    pub fn g(&self);\n}\n", false),
        ("#[size({N}), align({M})]\nextern type E;\npub type U {\n    pub e: E,\n    pub f: [E; 2],\n}\n", false),
        ("#[size({N}), align({M})]\nextern type E;\npub type U {\n    pub p: *const E,\n}\n#[defaultable]\npub type V {\n    pub e: E,\n}\n", false),
        ("#[address({N})]\npub extern g: u32;\n", false),
        ("pub enum E: u8 {\n    A = {N},\n    B,\n}\n", false),
        ("pub enum E: i64 {\n    A = {N},\n    B = {M},\n    C,\n}\n", false),
        ("#[singleton({N})]\npub enum E: u32 {\n    A,\n}\n", false),
        ("pub enum E: u128 {\n    A = {N},\n    B,\n}\npub enum F: i128 {\n    A = {N},\n    B,\n}\n", false),
        ("pub enum E: i8 {\n    A = {N},\n    B,\n}\npub enum F: u16 {\n    A = {N},\n    B,\n}\npub enum G: i16 {\n    A = {N},\n}\npub enum H: u32 {\n    A = {N},\n}\npub enum I: i32 {\n    A = {N},\n}\npub enum J: u64 {\n    A = {N},\n    B,\n}\n", false),
        ("pub type Inner {\n    pub a: [u8; {N}],\n}\npub type Outer {\n    pub i: [Inner; {M}],\n    pub j: Inner,\n}\n", false),
        // array sizes outside field position: enum bases, extern values, signatures, behind pointers
        ("pub enum E: [u64; {N}] {\n    A,\n}\n", false),
        ("pub enum E: [[u16; {N}]; {M}] {\n    A,\n}\n", false),
        ("#[address(0x10)]\npub extern g: [u64; {N}];\n#[address(0x20)]\npub extern h: [[u8; {N}]; {M}];\n", false),
        ("pub type T {\n    pub a: u32,\n}\nimpl T {\n    #[address(16)]\n    pub fn f(&self, a: [u64; {N}]) -> [[u32; {N}]; {M}];\n}\n", false),
        ("pub type T {\n    vftable {\n        pub fn v(&self, a: [u64; {N}]) -> *const [u16; {M}];\n    },\n}\n", false),
        ("pub type T {\n    pub p: *const [u64; {N}],\n    pub q: *mut [[u8; {N}]; {M}],\n}\n", false),
        ("#[singleton(0x10), size({N})]\npub type T;\n#[copyable, defaultable]\npub type U {\n    pub a: [[u8; {N}]; 2],\n    pub b: [u64; {M}],\n}\n", false),
    ]
}

const IDENTS: &[&str] = &["a", "_a", "A1", "r#type", "Foo<Bar>", "é", "_", "fn", "struct", "self", "Self", "crate", "super", "match", "async", "try", "union", "dyn", "unknown", "vftable", "backend", "prologue", "u32", "void", "vftable_"];

fn ident_templates() -> Vec<&'static str> {
    vec![
        "pub type {I} {\n    pub a: u32,\n}\n",
        "#[singleton(0x10)]\npub type {I} {\n    vftable {\n        pub fn v(&self);\n    },\n}\n",
        "pub type T {\n    pub {I}: u32,\n}\n",
        "pub type T {\n    pub a: {I},\n}\n",
        "pub type T {\n    pub a: *const {I},\n}\n",
        "pub enum {I}: u32 {\n    A,\n}\n",
        "pub enum E: {I} {\n    A,\n}\n",
        "#[defaultable]\npub enum E: u32 {\n    #[default]\n    {I},\n    {I}2 = 4,\n}\n",
        "pub type T {\n    vftable {\n        pub fn {I}(&self);\n    },\n}\n",
        "pub type T {\n    pub x: u32,\n}\nimpl T {\n    #[address(0x10)]\n    pub fn {I}(&self, {I}: u32) -> u32;\n}\n",
        "pub type T {\n    pub x: u32,\n}\nimpl T {\n    #[address(0x10)]\n    pub fn f(&self, a: {I}) -> {I};\n}\n",
        "#[size(4), align(4)]\nextern type {I};\npub type T {\n    pub e: {I},\n}\n",
        "#[address(0x10)]\npub extern {I}: u32;\n",
        "#[address(0x10)]\npub extern g: {I};\n",
        "impl {I} {\n    #[address(0x10)]\n    pub fn f(&self);\n}\n",
        "use {I};\npub type T {\n    pub a: u32,\n}\n",
        "use x::{I}::y;\npub type T {\n    pub a: u32,\n}\n",
        "backend {I} prologue \"text\";\n",
        "#[{I}]\npub type T {\n    #[{I}(1)]\n    pub a: u32,\n}\n",
        "pub type B {\n    pub x: u32,\n}\npub type D {\n    #[base]\n    pub {I}: B,\n}\nimpl B {\n    #[address(0x10)]\n    pub fn f(&self);\n}\n",
        "pub type R {\n    pub x: u32,\n}\npub type A {\n    #[base]\n    pub {I}: R,\n}\npub type B {\n    #[base]\n    pub r: R,\n}\npub type D {\n    #[base]\n    pub {I}: A,\n    #[base]\n    pub b: B,\n}\nimpl R {\n    #[address(0x10)]\n    pub fn {I}(&self);\n}\n",
        "pub type {I} {\n    vftable {\n        pub fn {I}(&self);\n    },\n}\npub type D {\n    #[base]\n    pub {I}: {I},\n    pub x: *const u8,\n}\n#[address(0x10)]\npub extern g: *const {I};\n",
    ]
}

const ATTR_NAMES: &[&str] = &["size", "align", "address", "singleton", "index", "calling_convention", "base", "packed", "copyable", "cloneable", "defaultable", "default", "doc"];
const ATTR_SHAPES: &[&str] = &["{A}", "{A}()", "{A}(1)", "{A}(1, 2)", "{A}(\"s\")", "{A} = 1", "{A} = \"s\"", "{A}(x)", "{A}(-1)", "{A}(\"thiscall\")"];

fn attr_template(pos: usize, attr: &str) -> String {
    let a = |p: usize| if p == pos { format!("#[{attr}]\n") } else { String::new() };
    let inner = if pos == 0 { format!("#![{attr}]\n") } else { String::new() };
    format!(
        "{inner}{}pub type T {{\n{}    vftable {{\n{}        pub fn v(&self);\n    }},\n{}    pub x: u32,\n}}\n{}impl T {{\n{}    #[address(0x10)]\n    pub fn f(&self);\n}}\n{}pub enum E: u32 {{\n{}    A,\n    B,\n}}\n{}#[size(4), align(4)]\nextern type X;\n{}#[address(0x20)]\npub extern g: u32;\npub type D {{\n{}    #[base]\n    pub b: T,\n}}\n",
        a(1), a(2), a(3), a(4), a(5), a(6), a(7), a(8), a(9), a(10), a(11)
    )
}

fn oddities() -> Vec<&'static str> {
    vec![
        "pub type B {\n    pub x: u32,\n}\npub type D {\n    #[base]\n    _: B,\n}\n",
        "pub type B {\n    pub x: u32,\n}\npub type D {\n    #[base]\n    pub b: *const B,\n}\n",
        "pub type B {\n    pub x: u32,\n}\npub type D {\n    #[base]\n    pub b: [B; 2],\n}\n",
        "pub type D {\n    #[base]\n    pub b: u32,\n}\n",
        "pub enum E: u32 {\n    A,\n}\npub type D {\n    #[base]\n    pub b: E,\n}\n",
        "#[size(4), align(4)]\nextern type X;\npub type D {\n    #[base]\n    pub b: X,\n}\n",
        "pub type D {\n    #[base]\n    pub b: Nope,\n}\n",
        "pub type D {\n    #[base]\n    pub b: D,\n}\n",
        "pub type D {\n    #[base]\n    pub b: unknown<4>,\n}\n",
        "pub type B {\n    vftable {\n        pub fn v(&self);\n    },\n}\npub type D {\n    pub pad: u64,\n    #[base]\n    pub b: B,\n}\n",
        "pub type B {\n    vftable {\n        pub fn v(&self);\n    },\n}\npub type D {\n    #[base]\n    pub a: B,\n    #[base]\n    pub b: B,\n    vftable {\n        pub fn v(&self);\n    },\n}\n",
        "pub type T {\n    pub x: u32,\n    vftable {\n        pub fn v(&self);\n    },\n}\n",
        "pub type T {\n    vftable {\n    },\n}\n",
        "pub type T {\n    vftable {\n        pub fn v();\n    },\n}\n",
        "pub type T {\n    vftable {\n        #[address(0x10)]\n        pub fn v(&self);\n    },\n}\n",
        "pub type T {\n    pub v: void,\n}\n",
        "pub type T {\n    pub v: [void; 4],\n    pub w: *const void,\n}\n",
        "#[defaultable]\npub type T {\n    pub v: void,\n    pub a: [u8; 64],\n}\n",
        "pub enum E: f32 {\n    A,\n}\n",
        "pub enum E: *const u8 {\n    A,\n}\n",
        "pub enum E: [u8; 4] {\n    A,\n}\n",
        "pub enum E: unknown<4> {\n    A,\n}\n",
        "pub enum E: void {\n    A,\n}\n",
        "pub type S {\n    pub x: u32,\n}\npub enum E: S {\n    A,\n}\n",
        "pub enum E: u32 {\n}\n",
        "pub enum E: u32 {\n    A = x,\n}\n",
        "pub enum E: u32 {\n    A = \"s\",\n}\n",
        "#[defaultable]\npub enum E: u32 {\n}\n",
        "#[doc = 1]\npub type T {\n    pub x: u32,\n}\n",
        "pub type T {\n    #[doc = x]\n    pub x: u32,\n}\n",
        "#![doc = 1]\n",
        "impl Missing {\n    #[address(0x10)]\n    pub fn f(&self);\n}\n",
        "pub type T {\n    pub x: u32,\n}\nimpl T {\n    pub fn no_address(&self);\n}\n",
        "pub type T {\n    pub x: u32,\n}\nimpl T {\n    #[address(0x10)]\n    pub fn f(&self);\n    #[address(0x20)]\n    pub fn f(&self);\n}\n",
        "pub type T {\n    pub x: u32,\n}\nimpl T {\n    #[address(0x10)]\n    pub fn f(&self);\n}\nimpl T {\n    #[address(0x20)]\n    pub fn g(&self);\n}\n",
        "pub extern g: u32;\n",
        "#[address(\"s\")]\npub extern g: u32;\n",
        "extern type X;\n",
        "#[size(4)]\nextern type X;\n",
        "#[align(4)]\nextern type X;\n",
        "#[size(4), align(3)]\nextern type X;\npub type T {\n    pub a: X,\n    pub b: X,\n}\n",
        "backend rust prologue r#\"\n    this is not rust ((((\n\"#;\npub type T {\n    pub x: u32,\n}\n",
        "backend rust epilogue r#\"\n    }}}}\n\"#;\n",
        "backend rust {\n}\n",
        "pub type T {\n    pub a: u32,\n    pub a: u32,\n}\n",
        "pub type T {\n    pub vftable: u32,\n    vftable {\n        pub fn vftable(&self);\n    },\n}\n",
        "pub type T {\n    vftable {\n        pub fn vftable(&self);\n        pub fn _vfunc_0(&self);\n        pub fn v(&self, this: u32, this: u32);\n    },\n    pub _field_0: u32,\n}\n",
        "pub type T {\n    pub x: u32,\n}\nimpl T {\n    #[address(0x10)]\n    pub fn _hidden(&self);\n    #[address(0x10)]\n    pub fn get(&self);\n    #[address(0x10)]\n    pub fn as_ref(&self);\n}\n",
        "use a;\nuse a;\nuse a::b::c::d::e::f::g;\nuse ::x;\npub type T {\n    pub x: u32,\n}\n",
        "",
        "//! only a doc\n",
        "#![a(b)]\n#![c = 1]\n",
    ]
}

const API_MODULES: &[&str] = &["pub type A {\n    pub x: u32,\n}\n", "use m0;\npub type B {\n    pub a: A,\n    vftable {\n        pub fn v(&self);\n    },\n}\n#[address(0x10)]\npub extern g: u32;\n", ""];
const API_PATHS: usize = 4; // 0 fresh path m<i>, 1 the path of the previous call, 2 nested path without parent, 3 empty path

pub fn cases(tier: &str, accepted_token_texts: &[String]) -> Vec<Case> {
    let mut out = vec![];
    for (tpl, table) in numeric_templates() {
        let two = tpl.contains("{M}");
        let b_table: Vec<&str> = B_TABLE.iter().map(|v| if tier != "thorough" { match *v { "65535" => "4095", "65536" => "4096", x => x } } else { *v }).collect();
        let ns: &[&str] = if table { &b_table } else { B };
        for n in ns {
            if two {
                for m in B {
                    let m = if table && tier != "thorough" { match *m { "65535" => &"4095", "65536" => &"4096", _ => m } } else { m };
                    if table && !b_table.contains(m) {
                        continue;
                    }
                    out.push(Case { family: "numeric", kind: Kind::Build(Input::single(tpl.replace("{N}", n).replace("{M}", m))) });
                }
            } else {
                out.push(Case { family: "numeric", kind: Kind::Build(Input::single(tpl.replace("{N}", n))) });
            }
        }
    }
    for tpl in ident_templates() {
        for i in IDENTS {
            out.push(Case { family: "identifier", kind: Kind::Build(Input::single(tpl.replace("{I}", i))) });
        }
    }
    for pos in 0..12 {
        for a in ATTR_NAMES {
            for s in ATTR_SHAPES {
                out.push(Case { family: "attribute_soup", kind: Kind::Build(Input::single(attr_template(pos, &s.replace("{A}", a)))) });
            }
        }
    }
    for o in oddities() {
        out.push(Case { family: "oddity", kind: Kind::Build(Input::single(o)) });
        // the same next to a sane module that imports it
        out.push(Case { family: "oddity", kind: Kind::Build(Input { modules: vec![("m".into(), o.to_string()), ("n::user".into(), "use m;\npub type User {\n    pub p: *const T,\n}\n".into())] }) });
    }
    // deep nesting and sheer numbers: the work must stay proportional to the text
    for depth in [8usize, 16, 24, 32, 64, 128] {
        for (open, close) in [("[", "; 1]"), ("[", "; 0]"), ("[", "; 2]"), ("*const ", ""), ("*mut ", ""), ("*const [", "; 1]"), ("[*mut ", "; 3]")] {
            let ty = format!("{}u8{}", open.repeat(depth), close.repeat(depth));
            out.push(Case { family: "deep_nesting", kind: Kind::Build(Input::single(format!("pub type T {{\n    pub f: {ty},\n}}\n"))) });
            out.push(Case { family: "deep_nesting", kind: Kind::Build(Input::single(format!("pub type T {{\n    vftable {{\n        pub fn v(&self, a: {ty}) -> {ty};\n    }},\n    pub x: u32,\n}}\nimpl T {{\n    #[address(0x10)]\n    pub fn f(&self, a: {ty}) -> {ty};\n}}\n#[address(0x20)]\npub extern g: {ty};\n"))) });
            out.push(Case { family: "deep_nesting", kind: Kind::Build(Input::single(format!("#[copyable, defaultable]\npub type Inner {{\n    pub f: {ty},\n}}\n#[copyable, defaultable]\npub type T {{\n    pub a: [Inner; 2],\n    pub b: Inner,\n}}\n"))) });
        }
    }
    for n in [100usize, 1000, 3000] {
        let fields: String = (0..n).map(|i| format!("    pub f{i}: u32,\n")).collect();
        out.push(Case { family: "large_input", kind: Kind::Build(Input::single(format!("pub type T {{\n{fields}}}\n"))) });
        let gaps: String = (0..n).map(|i| format!("    #[address({})]\n    pub f{i}: u32,\n", 8 * i)).collect();
        out.push(Case { family: "large_input", kind: Kind::Build(Input::single(format!("pub type T {{\n{gaps}}}\n"))) });
        let variants: String = (0..n).map(|i| format!("    V{i},\n")).collect();
        out.push(Case { family: "large_input", kind: Kind::Build(Input::single(format!("pub enum E: u32 {{\n{variants}}}\n"))) });
        let funcs: String = (0..n.min(1000)).map(|i| format!("        pub fn v{i}(&self, a: u32) -> u32;\n")).collect();
        out.push(Case { family: "large_input", kind: Kind::Build(Input::single(format!("pub type T {{\n    vftable {{\n{funcs}    }},\n    pub x: u32,\n}}\npub type D {{\n    #[base]\n    pub t: T,\n}}\n"))) });
        // a by-value chain declared backwards, and the same as an inheritance chain
        let m = n.min(300);
        let chain: String = (0..m).rev().map(|i| if i + 1 == m { format!("pub type C{i} {{\n    pub x: u32,\n}}\n") } else { format!("pub type C{i} {{\n    pub next: C{},\n    pub x: u32,\n}}\n", i + 1) }).collect();
        out.push(Case { family: "large_input", kind: Kind::Build(Input::single(chain)) });
        let m = n.min(60);
        let bases: String = (0..m).rev().map(|i| if i + 1 == m { format!("pub type H{i} {{\n    pub x: u32,\n}}\nimpl H{i} {{\n    #[address(0x10)]\n    pub fn f(&self);\n}}\n") } else { format!("pub type H{i} {{\n    #[base]\n    pub base: H{},\n    pub x: u32,\n}}\n", i + 1) }).collect();
        out.push(Case { family: "large_input", kind: Kind::Build(Input::single(bases)) });
        let long = "x".repeat(n);
        out.push(Case { family: "large_input", kind: Kind::Build(Input::single(format!("/// {long}\npub type T{long} {{\n    pub f{long}: u32,\n}}\n"))) });
    }
    // rust backend text that is not Rust, with the offending token spanning lines / ending left of its start
    for bad in [
        "fn ok() {}\n                                        \"a string that starts far to the right\nand ends here\" junk",
        "                    r#\"raw\nstring\"# ) ) )",
        "/* never closed\n\n",
        "fn f() {\n    (\n",
        "                                let x = 'c\n';",
        "\u{feff}struct 名 { }\n        \"ü\nü\" +",
    ] {
        out.push(Case { family: "oddity", kind: Kind::Build(Input::single(format!("backend rust prologue r###\"\n{bad}\n\"###;\npub type T {{\n    pub x: u32,\n}}\n"))) });
        out.push(Case { family: "oddity", kind: Kind::Build(Input::single(format!("//! doc\nbackend rust {{\n    prologue r###\"\nuse core::mem;\n\"###;\n    epilogue r###\"\n{bad}\n\"###;\n}}\npub type T {{\n    pub x: u32,\n}}\n"))) });
    }
    for g in graphs::graph_inputs(if tier == "thorough" { "quick" } else { "sched" }, tier != "thorough") {
        out.push(Case { family: "graph", kind: Kind::Build(g.input) });
    }
    // inheritance hierarchies with clashing function names (every 5th of C07's space), and
    // names that already look like a renamed inherited function
    for (i, input) in crate::checks::c07::all_inputs(tier).into_iter().enumerate() {
        if tier == "thorough" || i % 5 == 0 {
            out.push(Case { family: "hierarchy", kind: Kind::Build(input) });
        }
    }
    for names in [["foo", "b_foo", "foo"], ["foo", "a_foo", "foo"], ["b_foo", "foo", "b_foo"], ["foo", "b_b_foo", "b_foo"]] {
        let t = format!(
            "pub type A {{\n    pub x: u32,\n}}\nimpl A {{\n    #[address(0x10)]\n    pub fn {}(&self);\n    #[address(0x20)]\n    pub fn {}(&self);\n}}\npub type B {{\n    pub y: u32,\n}}\nimpl B {{\n    #[address(0x30)]\n    pub fn {}(&self);\n}}\npub type D {{\n    #[base]\n    pub a: A,\n    #[base]\n    pub b: B,\n}}\npub type DD {{\n    #[base]\n    pub b: B,\n    #[base]\n    pub d: D,\n}}\n",
            names[0], names[1], names[2]
        );
        out.push(Case { family: "oddity", kind: Kind::Build(Input::single(t)) });
    }
    for input in graphs::cycles_with_vftables() {
        out.push(Case { family: "graph", kind: Kind::Build(input) });
    }
    for t in accepted_token_texts {
        out.push(Case { family: "token_sequence", kind: Kind::Build(Input::single(t.clone())) });
    }
    // API call sequences: up to 3 add_module calls, then build
    let depth = if tier == "thorough" { 4 } else { 3 };
    let per = API_MODULES.len() * API_PATHS;
    for len in 0..=depth {
        for idx in 0..per.pow(len as u32) {
            let d = util::decode(idx, &vec![per; len]);
            out.push(Case { family: "api_sequence", kind: Kind::Api(d.iter().map(|x| (x % API_MODULES.len(), x / API_MODULES.len())).collect()) });
        }
    }
    out
}

fn run_api(seq: &[(usize, usize)], ps: usize) -> Result<(), String> {
    let r = std::panic::catch_unwind(|| -> anyhow::Result<()> {
        let mut st = pyxis::semantic::SemanticState::new(ps);
        let mut last = ItemPath::from("m0");
        for (i, (m, p)) in seq.iter().enumerate() {
            let module = pyxis::parser::parse_str(API_MODULES[*m])?;
            let path = match p {
                0 => ItemPath::from(format!("m{i}").as_str()),
                1 => last.clone(),
                2 => ItemPath::from(format!("deep{i}::er::m").as_str()),
                _ => ItemPath::empty(),
            };
            last = path.clone();
            // errors of add_module are results, not failures; later calls still happen
            let _ = st.add_module(&module, &path);
        }
        let resolved = st.build()?;
        pipe::emit(&resolved)?;
        Ok(())
    });
    match r {
        Err(_) => Err("panic".into()),
        Ok(_) => Ok(()),
    }
}

pub fn describe(c: &Case) -> Input {
    match &c.kind {
        Kind::Build(i) => i.clone(),
        Kind::Api(seq) => Input::single(format!(
            "// API sequence on a fresh SemanticState, then build():\n{}",
            seq.iter().enumerate().map(|(i, (m, p))| format!("// add_module(module #{m}, path kind {p} [{}])\n", ["fresh m<i>", "same as previous call", "nested path deep<i>::er::m", "empty path"][*p]) + &format!("//   call {i}\n")).collect::<String>()
        )),
    }
}

/// Evaluates one case in this process. Returns Some(kind, detail) on a panic.
fn eval(c: &Case, ps: usize) -> Option<(String, String)> {
    match &c.kind {
        Kind::Build(input) => match pipe::run(input, ps) {
            pipe::Verdict::Panic(p) => Some(("panic".into(), p)),
            _ => None,
        },
        Kind::Api(seq) => run_api(seq, ps).err().map(|e| (e, "panic in an API call sequence".into())),
    }
}

extern "C" {
    fn setrlimit(resource: i32, rlim: *const [u64; 2]) -> i32;
}

/// Worker: `pyxis-mc C12-WORKER <tier> <shard> <nshards> <status file> <skip> <token file>`
pub fn worker_main(args: &[String]) -> i32 {
    let tier = &args[0];
    let shard: usize = args[1].parse().unwrap();
    let nshards: usize = args[2].parse().unwrap();
    let status = std::fs::OpenOptions::new().create(true).write(true).truncate(false).open(&args[3]).unwrap();
    let skip: i64 = args[4].parse().unwrap();
    let toks: Vec<String> = std::fs::read_to_string(&args[5]).map(|s| serde_json::from_str(&s).unwrap()).unwrap_or_default();
    let only: Option<usize> = args.get(6).and_then(|s| s.parse().ok());
    // 4 GiB of address space: "memory proportional to what the input asks for" is far below that
    unsafe {
        let lim = [4u64 << 30, 4u64 << 30];
        setrlimit(9 /* RLIMIT_AS */, &lim);
    }
    let all = cases(tier, &toks);
    let progress = Arc::new(AtomicU64::new(0));
    {
        let progress = progress.clone();
        std::thread::spawn(move || {
            let mut last = u64::MAX;
            let mut stuck = 0;
            loop {
                std::thread::sleep(std::time::Duration::from_secs(1));
                let p = progress.load(Ordering::Relaxed);
                if p == last {
                    stuck += 1;
                    if stuck >= 10 {
                        println!("{}", json!({"event": "timeout"}));
                        let _ = std::io::stdout().flush();
                        std::process::exit(3);
                    }
                } else {
                    stuck = 0;
                    last = p;
                }
            }
        });
    }
    let out = std::io::stdout();
    for (i, c) in all.iter().enumerate() {
        if let Some(o) = only {
            if i != o {
                continue;
            }
        } else if i % nshards != shard || (i as i64) <= skip {
            continue;
        }
        for ps in [4usize, 8] {
            let code = (i as u64) * 2 + (ps == 8) as u64;
            let _ = status.write_all_at(&code.to_le_bytes(), 0);
            progress.fetch_add(1, Ordering::Relaxed);
            if let Some((kind, detail)) = eval(c, ps) {
                let mut o = out.lock();
                let _ = writeln!(o, "{}", json!({"event": "violation", "index": i, "ps": ps, "kind": kind, "detail": detail}));
            }
        }
    }
    println!("{}", json!({"event": "done", "cases": all.len()}));
    0
}

struct WorkerOutcome {
    violations: Vec<(usize, usize, String, String)>,
    /// Some((index, ps, how)) if the worker died on a case
    died: Option<(usize, usize, String)>,
}

fn run_worker(tier: &str, shard: usize, nshards: usize, skip: i64, tokfile: &str, only: Option<usize>) -> WorkerOutcome {
    let exe = std::env::current_exe().unwrap();
    let status = util::scratch_root().join(format!("c12-status-{shard}"));
    let _ = std::fs::write(&status, u64::MAX.to_le_bytes());
    let mut cmd = Command::new(exe);
    cmd.args(["C12-WORKER", "x", tier, &shard.to_string(), &nshards.to_string(), status.to_str().unwrap(), &skip.to_string(), tokfile]);
    if let Some(o) = only {
        cmd.arg(o.to_string());
    }
    let mut child = cmd.stdout(Stdio::piped()).stderr(Stdio::null()).spawn().expect("spawn worker");
    let reader = BufReader::new(child.stdout.take().unwrap());
    let mut violations = vec![];
    let mut done = false;
    let mut timeout = false;
    for line in reader.lines().map_while(Result::ok) {
        let Ok(v) = serde_json::from_str::<Value>(&line) else { continue };
        match v["event"].as_str() {
            Some("violation") => violations.push((v["index"].as_u64().unwrap() as usize, v["ps"].as_u64().unwrap() as usize, v["kind"].as_str().unwrap().to_string(), v["detail"].as_str().unwrap_or("").to_string())),
            Some("done") => done = true,
            Some("timeout") => timeout = true,
            _ => {}
        }
    }
    let st = child.wait().expect("wait worker");
    let died = if done && st.success() {
        None
    } else {
        let code = std::fs::read(&status).ok().and_then(|b| b.get(..8).map(|b| u64::from_le_bytes(b.try_into().unwrap()))).unwrap_or(u64::MAX);
        let how = if timeout { "no progress for 10 s (endless loop?)".to_string() } else { format!("worker died: {st:?} (abort / out of memory under a 4 GiB limit)") };
        Some(((code / 2) as usize, if code % 2 == 1 { 8 } else { 4 }, how))
    };
    WorkerOutcome { violations, died }
}

pub fn run(tier: &str, only: Option<&Value>) -> i32 {
    let mut rep = Report::new("C12", tier);
    rep.rule = "E1 robustness menus — every numeric position x the boundary integer alphabet (singly and all pairs within a template; table-sized positions capped at 65536), every identifier position x an identifier alphabet incl. raw identifiers, generics, non-ASCII and keywords, every known attribute name x 10 shapes x 12 positions, a list of structural oddities (bases of every kind, odd enum bases, duplicate names, reserved generated names, broken backend text incl. offending tokens that span lines), types nested 8..128 levels deep (arrays of length 0 / 1 / 2, pointers, mixtures) in every type position, inputs with 100 / 1000 / 3000 fields, gaps, variants, virtual functions, chains of 300 types and 60 inheritance levels, very long names, the dependency graphs of C10, public-API call sequences (<= 3 add_module calls over 3 modules x 4 path kinds, then build) — and E3: every token sequence the parser accepts (lengths as in C18) continued into build; all at pointer widths 4 and 8 in worker subprocesses under a 4 GiB address-space limit and a 10 s no-progress watchdog; plus every rejected token text of length <= 3 (and a fifth of them again behind multi-byte characters on the same line, and eight hand-written errors after non-ASCII identifiers / strings) through add_file, whose error must name path:line:column inside the file. distinct = distinct case texts".into();
    rep.assumptions = vec![
        "a worker that dies or stalls is attributed to the case recorded in its status file and re-run alone before it is reported".into(),
        "asymptotic resource use is not measured: fixed generous caps on inputs whose requested tables are small".into(),
    ];
    // token exploration in-process (parse only, same as C18) to collect accepted texts
    let mut accepted: Vec<String> = vec![];
    let mut rejected_short: Vec<String> = vec![];
    {
        let (_, maxlen, cap) = tokens::bounds(tier);
        let k = tokens::ALPHABET.len();
        let mut frontier: Vec<Vec<usize>> = vec![vec![]];
        for len in 1..=maxlen {
            let total = frontier.len() * k;
            if total > cap {
                rep.caps.push(format!("token sequences of length {len} not explored ({total} candidates)"));
                break;
            }
            let fr = &frontier;
            let outs = util::par_map(total, |i, _| {
                let mut s = fr[i / k].clone();
                s.push(i % k);
                let r = tokens::eval(&s);
                (s, r)
            });
            let mut next = vec![];
            for (s, r) in outs {
                let Some(r) = r else { continue };
                rep.states += 1;
                rep.transitions += 1;
                if r.accepted {
                    accepted.push(r.text.clone());
                } else if len <= 3 {
                    rejected_short.push(r.text.clone());
                }
                if let Some((key, detail)) = &r.violation {
                    if key == "panic" {
                        rep.violation(Violation { key: "panic_in_parser".into(), features: vec![], input: Input::single(r.text.clone()), ps: 0, detail: detail.clone(), locator: json!({"space": "tokens", "tokens": s}) });
                    }
                }
                if len < 3 || r.viable {
                    next.push(s);
                }
            }
            frontier = next;
        }
    }
    accepted.sort();
    accepted.dedup();
    rep.count("token_sequences_accepted_and_built", accepted.len() as u64);
    let tokfile = util::scratch_root().join("c12-tokens.json");
    std::fs::write(&tokfile, serde_json::to_string(&accepted).unwrap()).unwrap();
    let tokfile = tokfile.to_str().unwrap().to_string();
    let all = cases(tier, &accepted);
    for c in &all {
        rep.count(&format!("family_{}", c.family), 1);
        rep.distinct_str(&describe(c).render());
    }
    if let Some(loc) = only {
        if loc["space"] != "cases" {
            println!("replay of token / add_file cases: re-run `./check C12 quick`");
            return 2;
        }
        // replay one case: by text, in a fresh worker
        let idx = loc["index"].as_u64().unwrap_or(0) as usize;
        let o = run_worker(tier, 0, 1, -1, &tokfile, Some(idx));
        let failed = !o.violations.is_empty() || o.died.is_some();
        if idx < all.len() {
            println!("{}", describe(&all[idx]).render());
        }
        for v in &o.violations {
            println!("{}: {}", v.2, v.3);
        }
        if let Some(d) = &o.died {
            println!("{}", d.2);
        }
        println!("replay: {}", if failed { "still failing" } else { "passes" });
        return failed as i32;
    }
    let nshards = util::n_threads();
    let results: Vec<Vec<WorkerOutcome>> = util::par_map(nshards, |shard, _| {
        let mut outs = vec![];
        let mut skip: i64 = -1;
        loop {
            let o = run_worker(tier, shard, nshards, skip, &tokfile, None);
            let died = o.died.clone();
            outs.push(o);
            match died {
                // a shard is resumed after a death, but not indefinitely: three cases that kill or
                // stall the worker are enough to report (the rest of the shard is then not run)
                Some((idx, _, _)) if (idx as i64) > skip && outs.len() < 3 => skip = idx as i64,
                _ => break,
            }
        }
        outs
    });
    let mut confirmations = 0;
    for outs in results {
        if outs.len() >= 3 && outs.last().is_some_and(|o| o.died.is_some()) {
            rep.caps.push("a shard was abandoned after three cases that killed or stalled its worker".into());
        }
        for o in outs {
            for (idx, ps, kind, detail) in o.violations {
                let c = &all[idx];
                // one class per panic site
                let kind = match detail.rsplit_once(" @ ") {
                    Some((_, loc)) if kind == "panic" => format!("panic@{}", loc.trim_start_matches("/repo/")),
                    _ => kind,
                };
                rep.violation(Violation { key: kind, features: vec![format!("family:{}", c.family)], input: describe(c), ps, detail, locator: json!({"space": "cases", "index": idx, "ps": ps}) });
            }
            if let Some((idx, ps, how)) = o.died {
                if idx >= all.len() {
                    rep.machinery(format!("a worker died before its first case: {how}"));
                    continue;
                }
                // confirm alone (the first few; a change that makes dozens of cases hang is
                // reported from those, the others are only counted)
                confirmations += 1;
                if confirmations > 6 {
                    rep.count("worker_deaths_not_individually_confirmed", 1);
                    continue;
                }
                let again = run_worker(tier, 0, 1, -1, &tokfile, Some(idx));
                if again.died.is_some() {
                    let c = &all[idx];
                    rep.violation(Violation { key: "abort_or_hang".into(), features: vec![format!("family:{}", c.family)], input: describe(c), ps, detail: how, locator: json!({"space": "cases", "index": idx, "ps": ps}) });
                } else {
                    rep.machinery(format!("worker death on case {idx} did not reproduce alone: {how}"));
                }
            }
        }
    }
    rep.states += all.len() as u64 * 2;
    rep.transitions += all.len() as u64 * 2;
    rep.traces += all.len() as u64 * 2;
    rep.evaluations += all.len() as u64 * 2;
    // the same rejected texts behind multi-byte characters on the same line (columns count characters,
    // not bytes), and hand-written errors after non-ASCII identifiers, strings and doc text
    let plain = rejected_short.len();
    for i in (0..plain).step_by(5) {
        let t = rejected_short[i].clone();
        rejected_short.push(format!("/* 名名é */ {t}"));
        if i % 3 == 0 {
            rejected_short.push(format!("/// dök 名\n/* ü */ {t} /* 名 */"));
        }
    }
    for t in [
        "type T { größe: u32 höhe: u32 }",
        "type T { a: 名名名 b: u32 }",
        "/// dök\ntype é { x: u32, ] }",
        "enum Ä: u32 { Ö = , }",
        "backend rust prologue \"ünï\" x;",
        "#[tag(\"名前\") size] type T {}",
        "use é::ü::;",
        "extern 名: u32",
    ] {
        rejected_short.push(t.to_string());
    }
    rejected_short.retain(|t| std::panic::catch_unwind(|| pyxis::parser::parse_str(t).is_err()).unwrap_or(true));
    // parse errors through add_file must name path:line:column inside the file
    let dir = util::scratch_root().join("c12-files");
    let _ = std::fs::create_dir_all(&dir);
    let n_rej = rejected_short.len();
    let outs = util::par_map(n_rej, |i, tid| {
        let text = &rejected_short[i];
        let p = dir.join(format!("t{tid}.pyxis"));
        std::fs::write(&p, text).unwrap();
        let mut st = pyxis::semantic::SemanticState::new(8);
        let r = std::panic::catch_unwind(std::panic::AssertUnwindSafe(|| st.add_file(&dir, &p)));
        match r {
            Err(_) => Some(("panic_in_add_file".to_string(), text.clone())),
            Ok(Ok(())) => Some(("add_file_accepts_what_parse_str_rejects".to_string(), text.clone())),
            Ok(Err(e)) => {
                let msg = format!("{e:#}");
                let want = format!("failed to parse {}:", p.display());
                let pos_ok = msg.find(&want).and_then(|at| {
                    let rest = &msg[at + want.len()..];
                    let mut it = rest.splitn(3, |c: char| !c.is_ascii_digit());
                    let line: usize = it.next()?.parse().ok()?;
                    let col: usize = it.next()?.parse().ok()?;
                    let lines: Vec<&str> = text.split('\n').collect();
                    Some(line >= 1 && line <= lines.len() && col >= 1 && col <= lines[line - 1].chars().count() + 1)
                });
                // another wording is fine as long as it names the file and a line / column pair inside it
                let pos_ok = pos_ok.or_else(|| {
                    let fname = p.file_name()?.to_str()?.to_string();
                    if !msg.contains(&fname) {
                        return None;
                    }
                    let stripped = msg.replace(&p.display().to_string(), " ").replace(&fname, " ");
                    let nums: Vec<usize> = stripped.split(|c: char| !c.is_ascii_digit()).filter(|t| !t.is_empty()).filter_map(|t| t.parse().ok()).collect();
                    let lines: Vec<&str> = text.split('\n').collect();
                    Some(nums.windows(2).any(|w| w[0] >= 1 && w[0] <= lines.len() && w[1] <= lines[w[0] - 1].chars().count() + 1))
                });
                match pos_ok {
                    Some(true) => None,
                    _ => Some(("parse_error_without_position_in_file".to_string(), format!("{msg}\nfor text {text:?}"))),
                }
            }
        }
    });
    rep.count("add_file_parse_errors_checked", n_rej as u64);
    rep.traces += n_rej as u64;
    for (i, o) in outs.into_iter().enumerate() {
        if let Some((key, detail)) = o {
            rep.violation(Violation { key, features: vec![], input: Input::single(rejected_short[i].clone()), ps: 8, detail, locator: json!({"space": "add_file", "index": i}) });
        }
    }
    for c in all.iter().step_by((all.len() / 6).max(1)).take(6) {
        rep.sample(json!({"family": c.family, "input": describe(c).render()}));
    }
    rep.finish()
}
