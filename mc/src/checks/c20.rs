//! C20 — equivalent descriptions produce identical bindings.
//! E1 over accepted cases of the layout, vftable and enum spaces x every applicable rewrite,
//! singly and in combination; oracle: byte-identical output (and both accepted).

use serde_json::{json, Value};

use crate::{model::*, pipe, report::*, spaces::*, spec::*, util};

#[derive(Clone, Debug)]
enum Site {
    /// R1: give field i the address it already has
    ExplicitAddr(usize),
    /// R2a: replace the unnamed gap field i by an address on the following field (or #[size])
    GapToAddr(usize),
    /// R2b: replace the address of field i by an unnamed gap field before it
    AddrToGap(usize),
    /// R2c: replace a #[size] larger than the natural end by a trailing unnamed gap
    SizeToGap,
    /// R3: #[size] equal to the natural size
    NaturalSize,
}

fn sites(t: &TypeS, lay: &Layout) -> Vec<Site> {
    let mut v = vec![];
    for (i, f) in t.fields.iter().enumerate() {
        if f.addr.is_none() {
            v.push(Site::ExplicitAddr(i));
        }
        if f.name.is_none() && f.addr.is_none() && matches!(f.ty, MTy::Unk(n) if n > 0) && !f.base {
            // only when something can carry the address: a following field, or a free #[size]
            if i + 1 < t.fields.len() {
                if t.fields[i + 1].addr.is_none() {
                    v.push(Site::GapToAddr(i));
                }
            } else if t.size.is_none() {
                v.push(Site::GapToAddr(i));
            }
        }
        if let Some(a) = f.addr {
            let prev_end = if i == 0 { pointer_end(lay) } else { lay.offsets[i - 1] + lay.sizes[i - 1] };
            if (a as u64) > prev_end {
                v.push(Site::AddrToGap(i));
            }
        }
    }
    let nat = natural_end(t, lay);
    match t.size {
        None => v.push(Site::NaturalSize),
        Some(s) if (s as u64) > nat => v.push(Site::SizeToGap),
        _ => {}
    }
    v
}

fn pointer_end(lay: &Layout) -> u64 {
    lay.vfptr_end
}

fn natural_end(t: &TypeS, lay: &Layout) -> u64 {
    match t.fields.len() {
        0 => lay.vfptr_end,
        n => lay.offsets[n - 1] + lay.sizes[n - 1],
    }
}

fn apply(t: &TypeS, lay: &Layout, chosen: &[&Site], gap_style: usize) -> TypeS {
    // how an inserted `_` gap field is written: plain, `pub`, or with a doc comment
    let mk_gap = |n: u64| {
        let mut g = FieldS::gap(n);
        match gap_style {
            1 => g.public = true,
            2 => g.doc = vec![" reserved".to_string()],
            _ => {}
        }
        g
    };
    let mut out = t.clone();
    let mut drop: Vec<usize> = vec![];
    let mut insert_before: Vec<(usize, u64)> = vec![];
    for s in chosen {
        match s {
            Site::ExplicitAddr(i) => out.fields[*i].addr = Some(lay.offsets[*i] as i128),
            Site::NaturalSize => out.size = Some(lay.size as i128),
            Site::GapToAddr(i) => {
                let after = lay.offsets[*i] + lay.sizes[*i];
                drop.push(*i);
                if *i + 1 < t.fields.len() {
                    out.fields[*i + 1].addr = Some(after as i128);
                } else {
                    out.size = Some(after as i128);
                }
            }
            Site::AddrToGap(i) => {
                let prev_end = if *i == 0 { lay.vfptr_end } else { lay.offsets[*i - 1] + lay.sizes[*i - 1] };
                insert_before.push((*i, lay.offsets[*i] - prev_end));
                out.fields[*i].addr = None;
            }
            Site::SizeToGap => {
                let nat = natural_end(t, lay);
                insert_before.push((t.fields.len(), lay.size - nat));
                out.size = None;
            }
        }
    }
    // rebuild the field list
    let mut fields = vec![];
    for (i, f) in out.fields.iter().enumerate() {
        if let Some((_, gap)) = insert_before.iter().find(|(k, _)| *k == i) {
            fields.push(mk_gap(*gap));
        }
        if !drop.contains(&i) {
            fields.push(f.clone());
        }
    }
    if let Some((_, gap)) = insert_before.iter().find(|(k, _)| *k == t.fields.len()) {
        fields.push(mk_gap(*gap));
    }
    out.fields = fields;
    out
}

/// Site combinations that touch the same field twice are not applicable together.
fn compatible(chosen: &[&Site], n_fields: usize) -> bool {
    let mut touched = vec![0u8; n_fields + 2];
    let mut size_touched = 0;
    for s in chosen {
        match s {
            Site::ExplicitAddr(i) => touched[*i] += 1,
            Site::GapToAddr(i) => {
                touched[*i] += 1;
                if *i + 1 < n_fields {
                    touched[*i + 1] += 1;
                } else {
                    size_touched += 1;
                }
            }
            Site::AddrToGap(i) => touched[*i] += 1,
            Site::SizeToGap | Site::NaturalSize => size_touched += 1,
        }
    }
    touched.iter().all(|c| *c <= 1) && size_touched <= 1
}

fn out_of(input: &pipe::Input, ps: usize) -> Result<String, String> {
    match pipe::run(input, ps) {
        pipe::Verdict::Ok(b) => Ok(b.files.values().cloned().collect::<Vec<_>>().join("\n=====\n")),
        v => Err(v.err_text()),
    }
}

fn print_styled(mods: &[ModuleS], style: NumStyle) -> pipe::Input {
    pipe::Input { modules: mods.iter().map(|m| (m.path.clone(), Printer { style, reverse_type_attrs: false, docs_after_attrs: false, attr_order: 0 }.module(m))).collect() }
}

pub fn run(tier: &str, only: Option<&Value>) -> i32 {
    let mut rep = Report::new("C20", tier);
    rep.rule = "E1: every accepted case of the layout space (and of small vftable / enum / multi-type spaces) x every applicable rewrite site — R1 explicit address equal to the current offset, R2 unnamed gap <-> address on the following field / #[size], R3 #[size] equal to the natural size, R4 #[index] equal to the current slot (also on functions that carry a doc line and a convention, written before and after those), R5 enum value equal to the implicit one — in every compatible combination of up to 8 sites, plus R6 decimal/hex/underscore spelling of every number and R7 every permutation of a module's definitions (four interdependent ones with impl / extern items, and six — seven thorough — with similar names); oracle: the rewritten description is accepted and its output is byte-identical. distinct = distinct original descriptions with at least one site".into();
    rep.assumptions = vec!["rewrite sites are computed from the description by the reference layout model".into()];
    let space = LayoutSpace::new_reduced(tier, false).without_long();
    let only_i = only.map(|l| (l["space"].as_str().unwrap_or("").to_string(), l["index"].as_u64().unwrap_or(0) as usize, l["ps"].as_u64().unwrap_or(8) as usize));
    for ps in [4usize, 8] {
        if matches!(&only_i, Some((_, _, p)) if *p != ps) {
            continue;
        }
        // ---- layout space: R1, R2, R3, R6 ----
        if only_i.is_none() || matches!(&only_i, Some((s, _, _)) if s == "layout") {
            let idxs: Vec<usize> = match &only_i {
                Some((_, i, _)) => vec![*i],
                None => (0..space.len()).collect(),
            };
            let outs = util::par_map(idxs.len(), |j, _| {
                let case = space.get(idxs[j], ps as u64);
                let lay = layout_with_vfptr(&case.ty, ps as u64, &space.env);
                if !lay.rejects.is_empty() {
                    return (0u64, 0u64, None);
                }
                let mods = space.modules_for(&case.ty);
                let Ok(base) = out_of(&to_input(&mods), ps) else {
                    return (0, 0, None);
                };
                let ss = sites(&case.ty, &lay);
                let mut n = 0u64;
                let mut viol = None;
                let k = ss.len().min(8);
                for mask in 1u32..(1 << k) {
                    let chosen: Vec<&Site> = (0..k).filter(|b| mask >> b & 1 == 1).map(|b| &ss[b]).collect();
                    if !compatible(&chosen, case.ty.fields.len()) {
                        continue;
                    }
                    let inserts_gap = chosen.iter().any(|s| matches!(s, Site::AddrToGap(_) | Site::SizeToGap));
                    for gap_style in 0..(if inserts_gap { 3 } else { 1 }) {
                        let t2 = apply(&case.ty, &lay, &chosen, gap_style);
                        let input2 = to_input(&space.modules_for(&t2));
                        n += 1;
                        match out_of(&input2, ps) {
                            Ok(o) if o == base => {}
                            Ok(o) => {
                                viol = Some(("rewrite_changes_output".to_string(), format!("sites {chosen:?}\n--- original ---\n{}\n{base}\n--- rewritten ---\n{}\n{o}", to_input(&mods).render(), input2.render()), input2));
                                break;
                            }
                            Err(e) => {
                                viol = Some(("rewrite_rejected".to_string(), format!("sites {chosen:?}\n--- original (accepted) ---\n{}\n--- rewritten ---\n{}\n{e}", to_input(&mods).render(), input2.render()), input2));
                                break;
                            }
                        }
                    }
                    if viol.is_some() {
                        break;
                    }
                }
                // R6 spellings
                if viol.is_none() {
                    for st in [NumStyle::Hex, NumStyle::Under] {
                        let input2 = print_styled(&mods, st);
                        n += 1;
                        match out_of(&input2, ps) {
                            Ok(o) if o == base => {}
                            Ok(o) => viol = Some(("spelling_changes_output".to_string(), format!("{st:?}\n{base}\n---\n{o}"), input2)),
                            Err(e) => viol = Some(("spelling_rejected".to_string(), format!("{st:?}: {e}"), input2)),
                        }
                    }
                }
                (1, n, viol)
            });
            for (j, (accepted, n, viol)) in outs.into_iter().enumerate() {
                rep.states += accepted;
                rep.transitions += n;
                rep.traces += n + accepted;
                rep.evaluations += n + accepted;
                if n > 2 {
                    rep.distinct.insert(((idxs[j] as u64) << 4) | ps as u64);
                }
                rep.count("layout_rewrites_compared", n);
                if let Some((key, detail, input)) = viol {
                    rep.violation(Violation { key, features: vec!["space:layout".into()], input, ps, detail, locator: json!({"space": "layout", "index": idxs[j], "ps": ps}) });
                }
            }
        }
        // ---- vftable (R4), enum (R5), definition order (R7), spellings (R6) ----
        if only_i.is_none() || matches!(&only_i, Some((s, _, _)) if s == "other") {
            let others = other_cases(tier);
            let idxs: Vec<usize> = match &only_i {
                Some((_, i, _)) => vec![*i],
                None => (0..others.len()).collect(),
            };
            let outs = util::par_map(idxs.len(), |j, _| {
                let (kind, base_mods, variants) = &others[idxs[j]];
                let Ok(base) = out_of(&to_input(base_mods), ps) else {
                    return (*kind, 0u64, None);
                };
                let mut n = 0;
                let mut viol = None;
                for v in variants {
                    for st in [NumStyle::Dec, NumStyle::Hex, NumStyle::Under] {
                        let input2 = print_styled(v, st);
                        n += 1;
                        match out_of(&input2, ps) {
                            Ok(o) if o == base => {}
                            Ok(o) => viol = Some((format!("{kind}_rewrite_changes_output"), format!("--- original ---\n{}\n{base}\n--- rewritten ---\n{}\n{o}", to_input(base_mods).render(), input2.render()), input2)),
                            Err(e) => viol = Some((format!("{kind}_rewrite_rejected"), format!("--- original ---\n{}\n--- rewritten ---\n{}\n{e}", to_input(base_mods).render(), input2.render()), input2)),
                        }
                    }
                }
                (*kind, n, viol)
            });
            for (j, (kind, n, viol)) in outs.into_iter().enumerate() {
                rep.states += 1;
                rep.transitions += n;
                rep.traces += n + 1;
                rep.evaluations += n + 1;
                rep.count(&format!("{kind}_rewrites_compared"), n);
                if n > 0 {
                    rep.distinct.insert(0xF000_0000_0000 | ((idxs[j] as u64) << 4) | ps as u64);
                }
                if let Some((key, detail, input)) = viol {
                    rep.violation(Violation { key, features: vec![format!("space:{kind}")], input, ps, detail, locator: json!({"space": "other", "index": idxs[j], "ps": ps}) });
                } else if j % 301 == 0 {
                    rep.sample(json!({"ps": ps, "kind": kind, "original": to_input(&others[idxs[j]].1).render(), "one_rewrite": others[idxs[j]].2.first().map(|m| to_input(m).render())}));
                }
            }
        }
    }
    if only.is_some() {
        for v in &rep.violations {
            println!("{}: {}", v.key, v.detail);
        }
        let failed = !rep.violations.is_empty();
        println!("replay: {}", if failed { "still failing" } else { "passes" });
        return failed as i32;
    }
    rep.finish()
}

fn layout_with_vfptr(t: &TypeS, ps: u64, env: &Env) -> Layout {
    layout(t, ps, env, t.vft.is_some())
}

/// (kind, original modules, equivalent rewrites)
fn other_cases(tier: &str) -> Vec<(&'static str, Vec<ModuleS>, Vec<Vec<ModuleS>>)> {
    let mut out = vec![];
    // R4: vftables with 1..4 functions, an index gap pattern; every subset of functions gets its current index
    let maxf = if tier == "thorough" { 5 } else { 4 };
    for nf in 1..=maxf {
        for gaps in 0..(1u32 << nf) {
            // gaps bit i: function i is preceded by one placeholder slot (declared via #[index])
            let mut slot = 0i128;
            let mut funcs = vec![];
            let mut slots = vec![];
            for i in 0..nf {
                let mut f = FuncS::new(&format!("v{i}"));
                f.recv = if i % 2 == 0 { Recv::Const } else { Recv::Mut };
                if gaps >> i & 1 == 1 {
                    slot += 1;
                    f.index = Some(slot);
                }
                slots.push(slot);
                slot += 1;
                funcs.push(f);
            }
            for declared_size in [None, Some(slot), Some(slot + 2)] {
                let mk = |funcs: Vec<FuncS>| {
                    let mut t = TypeS::new("T");
                    t.vft = Some(VftS { size: declared_size, funcs });
                    t.fields = vec![FieldS::new("p", MTy::b("u8").cptr())];
                    vec![ModuleS::new("m").with(vec![Item::Type(t)])]
                };
                let base = mk(funcs.clone());
                let mut variants = vec![];
                for mask in 1u32..(1 << nf) {
                    let mut fs = funcs.clone();
                    for i in 0..nf {
                        if mask >> i & 1 == 1 {
                            fs[i].index = Some(slots[i]);
                        }
                    }
                    variants.push(mk(fs));
                }
                // R3 analogue for tables: a declared size equal to the natural length
                if declared_size.is_none() {
                    let mut t = TypeS::new("T");
                    t.vft = Some(VftS { size: Some(slot), funcs: funcs.clone() });
                    t.fields = vec![FieldS::new("p", MTy::b("u8").cptr())];
                    variants.push(vec![ModuleS::new("m").with(vec![Item::Type(t)])]);
                }
                out.push(("vftable", base, variants));
            }
        }
    }
    // R4 next to other attributes: every function carries a doc line and a non-default convention; the
    // index it already had is written before the convention and after it
    for nf in 1..=3usize {
        for gaps in 0..(1u32 << nf) {
            let mut slot = 0i128;
            let mut funcs = vec![];
            let mut slots = vec![];
            for i in 0..nf {
                let mut f = FuncS::new(&format!("v{i}"));
                f.recv = if i % 2 == 0 { Recv::Const } else { Recv::Mut };
                f.cc = Some(["cdecl", "stdcall", "fastcall"][(i + gaps as usize) % 3].to_string());
                f.doc = vec![format!(" slot of v{i}")];
                if gaps >> i & 1 == 1 {
                    slot += 1;
                    f.index = Some(slot);
                }
                slots.push(slot);
                slot += 1;
                funcs.push(f);
            }
            let mk = |funcs: Vec<FuncS>| {
                let mut t = TypeS::new("T");
                t.vft = Some(VftS { size: None, funcs });
                t.fields = vec![FieldS::new("p", MTy::b("u8").cptr())];
                vec![ModuleS::new("m").with(vec![Item::Type(t)])]
            };
            let mut variants = vec![];
            for mask in 1u32..(1 << nf) {
                for after in [false, true] {
                    let mut fs = funcs.clone();
                    for i in 0..nf {
                        if mask >> i & 1 == 1 {
                            if after {
                                // the printer writes `extra_attrs` behind the convention
                                fs[i].index = None;
                                fs[i].extra_attrs.push(format!("index({})", slots[i]));
                            } else {
                                fs[i].index = Some(slots[i]);
                            }
                        }
                    }
                    variants.push(mk(fs));
                }
            }
            out.push(("vftable_with_attributes", mk(funcs.clone()), variants));
        }
    }
    // R5: enums, every subset of implicit variants made explicit
    for base_ty in ["u8", "i32", "u64"] {
        let maxv = if tier == "thorough" { 6 } else { 5 };
        for nv in 1..=maxv {
            for explicit in 0..(1u32 << nv) {
              // explicit values ascending, and descending (an implicit value follows the previous variant,
              // not the largest value seen so far)
              for descending in [false, true] {
                if descending && explicit.count_ones() < 2 {
                    continue;
                }
                let mut e = EnumS::new("E", base_ty);
                for i in 0..nv {
                    let val = if descending { 10 * (nv - i) as i128 + 3 } else { 10 * i as i128 + 3 };
                    e.variants.push(VariantS { name: format!("V{i}"), value: if explicit >> i & 1 == 1 { Some(val) } else { None }, default: false, doc: vec![] });
                }
                let vals = enum_values(&e);
                let implicit: Vec<usize> = (0..nv).filter(|i| explicit >> i & 1 == 0).collect();
                let mut variants = vec![];
                for mask in 1u32..(1 << implicit.len()) {
                    let mut e2 = e.clone();
                    for (b, &i) in implicit.iter().enumerate() {
                        if mask >> b & 1 == 1 {
                            e2.variants[i].value = Some(vals[i]);
                        }
                    }
                    variants.push(vec![ModuleS::new("m").with(vec![Item::Enum(e2)])]);
                }
                out.push(("enum", vec![ModuleS::new("m").with(vec![Item::Enum(e)])], variants));
              }
            }
        }
    }
    // R5 at the boundary of the base type: an explicit value followed by implicit ones that end
    // at, or one past, the maximum (the latter originals are rejected and drop out)
    for (base_ty, max) in [("u8", 255i128), ("i8", 127), ("u16", 65535), ("i32", 2147483647)] {
        for start_off in 0..4i128 {
            for nv in 2..=4usize {
                let mut e = EnumS::new("E", base_ty);
                for i in 0..nv {
                    e.variants.push(VariantS { name: format!("V{i}"), value: if i == 0 { Some(max - start_off) } else { None }, default: false, doc: vec![] });
                }
                let vals = enum_values(&e);
                let mut variants = vec![];
                for mask in 1u32..(1 << (nv - 1)) {
                    let mut e2 = e.clone();
                    for i in 1..nv {
                        if mask >> (i - 1) & 1 == 1 {
                            e2.variants[i].value = Some(vals[i]);
                        }
                    }
                    variants.push(vec![ModuleS::new("m").with(vec![Item::Enum(e2)])]);
                }
                out.push(("enum", vec![ModuleS::new("m").with(vec![Item::Enum(e)])], variants));
            }
        }
    }
    // R7: permutations of the definitions of a module (<= 4 definitions + impl + extern items)
    let mut a = TypeS::new("A");
    a.fields = vec![FieldS::new("x", MTy::b("u32")), FieldS::new("b", MTy::user("B").cptr())];
    a.vft = Some(VftS { size: None, funcs: vec![FuncS::new("va")] });
    let mut b = TypeS::new("B");
    b.fields = vec![FieldS::new("base", MTy::user("A")).based(), FieldS::new("e", MTy::user("E"))];
    b.size = Some(24);
    let mut c = TypeS::new("C");
    c.fields = vec![FieldS::new("arr", MTy::user("B").arr(2))];
    let mut e = EnumS::new("E", "u32");
    e.variants = vec![VariantS { name: "P".into(), value: None, default: false, doc: vec![] }, VariantS { name: "Q".into(), value: Some(9), default: false, doc: vec![] }];
    let mut f = FuncS::new("f");
    f.address = Some(0x1000);
    f.args = vec![("c".into(), MTy::user("C").cptr())];
    let defs = vec![Item::Type(a), Item::Type(b), Item::Type(c), Item::Enum(e)];
    let tail = vec![Item::Impl { name: "A".into(), funcs: vec![f] }, Item::ExternValue { name: "g".into(), public: true, ty: MTy::user("C").mptr(), address: Some(0x2000) }];
    for n in 2..=defs.len() {
        let sub: Vec<Item> = defs[..n].to_vec();
        // only closed subsets are accepted; others are skipped by `out_of` returning Err for the base
        let mk = |order: &[usize], tail_first: bool| {
            let mut items = vec![];
            if tail_first && n == defs.len() {
                items.extend(tail.clone());
            }
            items.extend(order.iter().map(|&i| sub[i].clone()));
            if !tail_first && n == defs.len() {
                items.extend(tail.clone());
            }
            vec![ModuleS::new("m").with(items)]
        };
        let ident: Vec<usize> = (0..n).collect();
        let mut variants = vec![];
        for p in util::permutations(n) {
            variants.push(mk(&p, false));
            variants.push(mk(&p, true));
        }
        out.push(("definition_order", mk(&ident, false), variants));
    }
    // R7 with six (seven thorough) definitions whose names are prefixes of each other or differ in
    // case, a digit or an underscore, one of them with a vftable and one an enum
    let names: &[&str] = if tier == "thorough" { &["Item", "Item2", "Item10", "item", "Item_", "ITEM", "It"] } else { &["Item", "Item2", "Item10", "item", "Item_", "It"] };
    let defs: Vec<Item> = names
        .iter()
        .enumerate()
        .map(|(i, n)| {
            if i == 3 {
                let mut e = EnumS::new(n, "u16");
                e.variants = vec![VariantS { name: "P".into(), value: None, default: false, doc: vec![] }];
                Item::Enum(e)
            } else {
                let mut t = TypeS::new(n);
                t.fields = vec![FieldS::new("x", MTy::b("u32")), FieldS::new("y", MTy::b("u32"))];
                if i == 1 {
                    t.vft = Some(VftS { size: None, funcs: vec![FuncS::new("v")] });
                }
                if i == 2 {
                    t.fields.push(FieldS::new("p", MTy::user(names[0]).cptr()));
                    t.fields.push(FieldS::new("q", MTy::user(names[1]).cptr()));
                }
                Item::Type(t)
            }
        })
        .collect();
    let mk = |order: &[usize]| vec![ModuleS::new("m").with(order.iter().map(|&i| defs[i].clone()).collect())];
    let ident: Vec<usize> = (0..defs.len()).collect();
    let variants = util::permutations(defs.len()).iter().map(|p| mk(p)).collect();
    out.push(("definition_order", mk(&ident), variants));
    out
}
