//! E2: explicit-state exploration of resolution schedules through the `pyxis_verif` hook.
//!
//! state      = canonical dump of all non-predefined registry items at a pass boundary
//! transition = one permutation of the current worklist
//! Every execution runs on the real `SemanticState::build`; states are rebuilt by re-execution
//! of their history, and a divergence while replaying a prefix is a hard error.

use std::{
    cell::RefCell,
    collections::{BTreeMap, BTreeSet, VecDeque},
    rc::Rc,
};

use crate::{
    pipe::{self, Input, Verdict},
    util,
};

#[derive(Clone, Debug)]
pub struct PassRecord {
    pub worklist: Vec<String>,
    pub dump_hash: u64,
}

#[derive(Clone, Debug)]
pub struct Exec {
    pub verdict: Verdict,
    pub passes: Vec<PassRecord>,
    pub diverged: Option<String>,
}

/// A history is one worklist permutation (as indices into the sorted worklist) per pass.
pub type History = Vec<Vec<usize>>;

pub fn execute(input: &Input, ps: usize, add_order: &[usize], history: &History) -> Exec {
    let rec: Rc<RefCell<(Vec<PassRecord>, Option<String>)>> = Rc::new(RefCell::new((vec![], None)));
    let rec2 = rec.clone();
    let hist = history.clone();
    let scheduler: pyxis::verif::Scheduler = Box::new(move |pass, worklist, dump| {
        let mut r = rec2.borrow_mut();
        r.0.push(PassRecord {
            worklist: worklist.iter().map(|p| p.to_string()).collect(),
            dump_hash: util::fnv(dump),
        });
        if pass < hist.len() {
            let perm = &hist[pass];
            if perm.len() != worklist.len() {
                r.1 = Some(format!(
                    "pass {pass}: history permutes {} items but the worklist has {}",
                    perm.len(),
                    worklist.len()
                ));
                return worklist.to_vec();
            }
            perm.iter().map(|&i| worklist[i].clone()).collect()
        } else {
            worklist.to_vec()
        }
    });
    let verdict = pipe::run_scheduled(input, ps, add_order, scheduler);
    let r = rec.borrow();
    Exec { verdict, passes: r.0.clone(), diverged: r.1.clone() }
}

/// What C09 compares between executions of one input set.
pub fn outcome_key(v: &Verdict) -> String {
    match v {
        Verdict::Ok(b) => {
            let mut s = String::from("ok");
            for (f, t) in &b.files {
                s.push_str(&format!("|{f}:{:016x}:{}", util::fnv(t), t.len()));
            }
            s
        }
        Verdict::ParseErr(..) => "parse_err".into(),
        Verdict::Err(_) => "err".into(),
        Verdict::Panic(_) => "panic".into(),
    }
}

#[derive(Clone, Debug, Default)]
pub struct Exploration {
    pub states: u64,
    pub transitions: u64,
    pub executions: u64,
    pub max_worklist: usize,
    pub max_passes: usize,
    /// outcome key -> (add order, history, error text if any) of the first execution that produced it
    pub outcomes: BTreeMap<String, (Vec<usize>, History, String)>,
    pub errors: Vec<String>,
    pub capped: bool,
}

/// Explores all schedules of `input`: every module-addition order in `add_orders`, and for each
/// every per-pass permutation of the worklist, with de-duplication of pass-boundary states.
pub fn explore(input: &Input, ps: usize, add_orders: &[Vec<usize>], max_executions: u64) -> Exploration {
    let mut ex = Exploration::default();
    // Orders that keep one permutation across all passes are tried first within each state
    // (identity first), so the first counterexample recorded is the simplest one.
    for add_order in add_orders {
        let mut seen: BTreeSet<(usize, u64)> = BTreeSet::new();
        let mut queue: VecDeque<History> = VecDeque::new();
        let base = execute(input, ps, add_order, &vec![]);
        ex.executions += 1;
        record(&mut ex, add_order, &vec![], &base);
        if let Some(p0) = base.passes.first() {
            seen.insert((0, p0.dump_hash));
            ex.states += 1;
        } else {
            // no resolution pass at all (e.g. add_module failed)
            ex.states += 1;
            continue;
        }
        queue.push_back(vec![]);
        while let Some(h) = queue.pop_front() {
            let cur = execute(input, ps, add_order, &h);
            ex.executions += 1;
            if let Some(d) = &cur.diverged {
                ex.errors.push(format!("divergence replaying {h:?}: {d}"));
                continue;
            }
            let p = h.len();
            if cur.passes.len() <= p {
                continue;
            }
            let n = cur.passes[p].worklist.len();
            ex.max_worklist = ex.max_worklist.max(n);
            if n == 0 {
                continue;
            }
            for perm in util::permutations(n) {
                if ex.executions >= max_executions {
                    ex.capped = true;
                    return ex;
                }
                let mut h2 = h.clone();
                h2.push(perm);
                let e2 = execute(input, ps, add_order, &h2);
                ex.executions += 1;
                ex.transitions += 1;
                if let Some(d) = &e2.diverged {
                    ex.errors.push(format!("divergence replaying {h2:?}: {d}"));
                    continue;
                }
                // the prefix must replay identically
                for q in 0..=p {
                    if e2.passes.get(q).map(|x| (&x.worklist, x.dump_hash)) != cur.passes.get(q).map(|x| (&x.worklist, x.dump_hash)) {
                        ex.errors.push(format!("uncontrolled nondeterminism: pass {q} differs when replaying prefix of {h2:?}"));
                    }
                }
                record(&mut ex, add_order, &h2, &e2);
                ex.max_passes = ex.max_passes.max(e2.passes.len());
                if let Some(next) = e2.passes.get(p + 1) {
                    if seen.insert((p + 1, next.dump_hash)) {
                        ex.states += 1;
                        queue.push_back(h2);
                    }
                }
            }
        }
    }
    ex
}

fn record(ex: &mut Exploration, add_order: &[usize], h: &History, e: &Exec) {
    let key = outcome_key(&e.verdict);
    ex.outcomes
        .entry(key)
        .or_insert_with(|| (add_order.to_vec(), h.clone(), e.verdict.err_text()));
}
