#!/bin/bash
# Builds the engine (offline) and the no_std sysroots used by the rustc oracle.
ROOT="$(cd "$(dirname "${BASH_SOURCE[0]}")" && pwd)"
export VERIF_ROOT="$ROOT"
export CARGO_TARGET_DIR="$ROOT/work/target"
export CARGO_NET_OFFLINE=true
mkdir -p "$ROOT/work" "$ROOT/evidence"
( cd "$ROOT/mc" && cargo build --release --offline ) || exit 2
"$CARGO_TARGET_DIR/release/pyxis-mc" setup sysroots || exit 2
