#!/bin/bash
# usage: tools/lanes.sh setup <n>      create lane n: scratch worktree of /repo + engine copy bound to it
#        tools/lanes.sh run <n> <patch> <label> <check>...   apply patch in lane n, run checks, revert
#        tools/lanes.sh teardown <n>
# Lanes let seeded changes be tried without touching /repo (nothing is ever committed there).
set -u
cmd="$1"; n="$2"; L=/tmp/lane$n
case "$cmd" in
setup)
  rm -rf "$L"; mkdir -p "$L/out"
  git -C /repo worktree add -q --detach "$L/repo" HEAD || exit 2
  mkdir -p "$L/mc"; rsync -a --exclude target /verif/mc/ "$L/mc/"
  sed -i "s#path = \"/repo\"#path = \"$L/repo\"#" "$L/mc/Cargo.toml"
  (cd "$L/mc" && CARGO_TARGET_DIR="$L/target" cargo build --release --offline 2>&1 | tail -1)
  ;;
run)
  patch="$3"; label="$4"; shift 4
  # a seed made against an older HEAD may have been ported by hand to the current one
  [ -f "${patch%.diff}.ported.diff" ] && patch="${patch%.diff}.ported.diff"
  # always test against the current HEAD of /repo (fix commits may have landed since the lane was set up)
  git -C "$L/repo" reset -q --hard; git -C "$L/repo" clean -fdq; git -C "$L/repo" checkout -q --detach "$(git -C /repo rev-parse HEAD)"
  # seeds were made against an older HEAD: fall back to fuzzy application of the hunks
  git -C "$L/repo" apply "$patch" 2>/dev/null || (cd "$L/repo" && patch -p1 -s -F3 --no-backup-if-mismatch < "$patch") || { echo "$label: patch does not apply"; git -C "$L/repo" reset -q --hard; git -C "$L/repo" clean -fdq; exit 2; }
  find "$L/repo" -name "*.rej" -o -name "*.orig" | grep -q . && { echo "$label: patch does not apply (rejects)"; git -C "$L/repo" reset -q --hard; git -C "$L/repo" clean -fdq; exit 2; }
  rsync -a --exclude target --exclude Cargo.toml /verif/mc/ "$L/mc/"
  (cd "$L/mc" && CARGO_TARGET_DIR="$L/target" cargo build --release --offline > "$L/out/build.log" 2>&1) || { echo "$label: ENGINE BUILD FAILED"; tail -5 "$L/out/build.log"; git -C "$L/repo" reset -q --hard; git -C "$L/repo" clean -fdq; exit 2; }
  for c in "$@"; do
    VERIF_ROOT=/verif VERIF_OUT="$L/out" RUST_BACKTRACE=0 timeout 900 "$L/target/release/pyxis-mc" "$c" quick > "$L/out/$label.$c.log" 2>&1; rc=$?
    cls=$(grep -E "^  class=" "$L/out/$label.$c.log" | head -1 | cut -c1-200)
    echo "$label $c exit=$rc $cls"
  done
  git -C "$L/repo" reset -q --hard; git -C "$L/repo" clean -fdq
  ;;
teardown)
  git -C /repo worktree remove --force "$L/repo"; rm -rf "$L"
  ;;
esac
