#!/bin/bash
# usage: tools/run_all.sh quick|thorough [checks...]   runs the checks one after another against /repo,
# prints one line per check (exit code, wall time, summary line)
tier="${1:-quick}"; shift
cs="${@:-C01 C02 C03 C04 C05 C06 C07 C08 C09 C10 C11 C12 C13 C14 C15 C16 C17 C18 C19 C20}"
cd /verif
for c in $cs; do
  s=$(date +%s)
  ./check $c $tier > work/last.$c.$tier.log 2>&1; rc=$?
  e=$(date +%s)
  echo "$c $tier exit=$rc wall=$((e-s))s $(grep -E "^\[$c" work/last.$c.$tier.log | cut -c1-160) $(grep -c '^KNOWN-FINDING' work/last.$c.$tier.log) known"
  grep -E "^VIOLATION|MACHINERY" work/last.$c.$tier.log | head -3
done
