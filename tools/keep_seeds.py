#!/usr/bin/env python3
"""Copies confirmed seeded changes from /tmp/seed/<id>-out into /verif/seeded/<id>-<n>/ with a meta.json
built from the agent's notes and from the confirmation / detection results in /tmp/seed/results."""
import json, os, re, shutil, sys, glob

res_dir = sys.argv[1] if len(sys.argv) > 1 else "/tmp/seed/results"
round_tag = sys.argv[2] if len(sys.argv) > 2 else "round1"
for rf in sorted(glob.glob(f"{res_dir}/*.txt")):
    name = os.path.basename(rf)[:-4]            # C01-1
    pid, n = name.split("-")
    out = {"round1": f"/tmp/seed/{pid}-out", "r2": f"/tmp/seed2/{pid}-out", "r3": f"/tmp/seed3/{pid}-out", "r6": f"/tmp/seed7/{pid}-out", "r7": f"/tmp/seed8/{pid}-out"}.get(round_tag, f"/tmp/seed{round_tag[1:]}/{pid}-out")
    ported = os.path.exists(f"{out}/patch{n}.ported.diff")
    text = open(rf).read()
    if "DONE" not in text:
        continue
    # confirmation
    m = re.search(r"-- without patch: demo\n(.*?)\n-- with patch: suite\n(.*?)\n(.*?)\n-- with patch: demo\n(.*?)(?:\n\?\?|\n[A-Z]\d\d-)", text, re.S)
    without = with_suite = with_demo = ""
    lines = text.splitlines()
    def after(tag):
        try:
            i = lines.index(tag)
        except ValueError:
            return []
        o = []
        for l in lines[i+1:]:
            if l.startswith("-- ") or re.match(r"^C\d\d-\d", l): break
            o.append(l)
        return o
    without = " | ".join(after("-- without patch: demo"))
    # the first block in the file (before '-- with patch: suite') is the no-patch demo result when tail cut it
    if not without:
        head = []
        for l in lines[1:]:
            if l.startswith("-- "): break
            head.append(l)
        without = " | ".join(head)
    # confirmation log written by a dedicated run of tools/confirm_seed.sh, when present
    cf = rf.replace("/results/", "/confirm/")
    if os.path.exists(cf):
        lines_c = open(cf).read().splitlines()
        def after_c(tag):
            try:
                i = lines_c.index(tag)
            except ValueError:
                return []
            o = []
            for l in lines_c[i+1:]:
                if l.startswith("-- "): break
                o.append(l)
            return o
        without = " | ".join(after_c("-- without patch: demo"))
        after = after_c
    suite = " | ".join(after("-- with patch: suite"))
    demo = " | ".join(after("-- with patch: demo"))
    confirmed = ("ok." in without and "FAILED" not in without) and suite.count("62 passed") == 2 and ("FAILED" in demo or "error" in demo)
    det = [l.split()[1] for l in lines if re.match(r"^C\d\d-\d+ C\d\d exit=1", l)]
    # cross-detections from the earlier run of the related checks (older engine version)
    grp = rf.replace("/results/", "/results-group/")
    also = []
    if os.path.exists(grp):
        also = [l.split()[1] for l in open(grp).read().splitlines() if re.match(r"^C\d\d-\d+ C\d\d exit=1", l) and l.split()[1] != pid]
        if round_tag == "round1":
            # in that run the lanes were one fix behind the engine: C13 / C17 alarms are not attributable
            also = [a for a in also if a not in ("C13", "C17")]
    mach = [l.split()[1] for l in lines if re.match(r"^C\d\d-\d+ C\d\d exit=2", l)]
    classes = {l.split()[1]: l.split("class=",1)[1][:160] for l in lines if "exit=1" in l and "class=" in l}
    notes = open(f"{out}/notes.md").read() if os.path.exists(f"{out}/notes.md") else ""
    # the section of the notes about this patch
    sec = ""
    parts = re.split(r"\n(?=#+ .*patch\s*%s)" % n, notes, flags=re.I)
    if len(parts) > 1:
        sec = re.split(r"\n(?=#+ .*patch\s*\d)", parts[1], flags=re.I)[0]
    d = f"/verif/seeded/{pid}-{n}" if round_tag == "round1" else f"/verif/seeded/{pid}-{round_tag}-{n}"
    os.makedirs(d, exist_ok=True)
    shutil.copy(f"{out}/patch{n}.diff", f"{d}/patch.diff")
    if ported:
        shutil.copy(f"{out}/patch{n}.ported.diff", f"{d}/patch.ported-to-current-head.diff")
    if os.path.exists(f"{out}/demo{n}.rs"):
        shutil.copy(f"{out}/demo{n}.rs", f"{d}/demo.rs")
    meta = {
        "property": pid,
        "source": "independent sub-agent given only the property text and a scratch worktree of /repo",
        "base_commit": {"round1": "88e0012", "r2": "f1835f9", "r3": "3904c34", "r4": "c990c08", "r5": "9160c09"}.get(round_tag, "32713bd"),
        "ported": ported,
        "what_and_what_it_needs_to_manifest": sec.strip()[:2500] or "see the agent's notes (not parsed)",
        "confirmation": {
            "how": "tools/confirm_seed.sh in the scratch worktree: demo on unchanged HEAD; git apply patch; cargo test --offline --lib (ps 8 and 4); demo again",
            "demo_without_patch": without, "suite_with_patch": suite, "demo_with_patch": demo,
            "confirmed": confirmed,
        },
        "detection": {
            "how": "tools/lanes.sh: patch applied in a lane worktree of /repo at its HEAD, every check's quick tier run against it (evidence redirected), worktree reverted",
            "detected_by": det, "also_detected_by_related_checks_in_an_earlier_run": sorted(set(also)), "first_violation_class": classes, "machinery_failures": mach,
            "own_check_detects": pid in det,
        },
    }
    json.dump(meta, open(f"{d}/meta.json", "w"), indent=1)
    print(name, "confirmed" if confirmed else "NOT-CONFIRMED", "detected_by", det, "also", sorted(set(also)), ("MACH "+str(mach)) if mach else "")
