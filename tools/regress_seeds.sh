#!/bin/bash
# usage: tools/regress_seeds.sh <lane> <property>...   re-runs every archived seeded change of the given
# properties against the current engine (own check, quick tier) in lane <lane>; prints one line per seed.
lane="$1"; shift
for prop in "$@"; do
  for d in /verif/seeded/$prop-*; do
    [ -d "$d" ] || continue
    p="$d/patch.diff"; [ -f "$d/patch.ported-to-current-head.diff" ] && p="$d/patch.ported-to-current-head.diff"
    # the seed may be caught by another property's check (recorded in meta.json)
    checks=$(python3 -c "import json;m=json.load(open('$d/meta.json'));print(' '.join(m['detection']['detected_by']) or '$prop')")
    /verif/tools/lanes.sh run "$lane" "$p" "$(basename $d)" $checks 2>&1 | cut -c1-160
  done
done
