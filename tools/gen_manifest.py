#!/usr/bin/env python3
"""Regenerates /verif/MANIFEST.json from the table below. Run from /verif."""
import json, subprocess

HOOK_COMMITS = ["ac08067"]
FIX_COMMITS = ["ee1d815", "296be57", "098316b", "7098e6b", "bcffdd6", "589a9d1", "787a52b", "01dcc1c", "13be19f", "eb8a8e1", "143bda1", "08fee98", "76d9565", "2fac958", "f13a010", "e0e2fbb", "6b377b1", "88e0012", "6cc0461", "a440b7e", "f1835f9", "c7e0c99", "a2047f0", "b109eaa", "431ab8f", "3904c34", "c4c01fd", "c990c08", "9160c09", "a7ccd80", "9f730ea", "32713bd"]

# id -> (technique, level text, level note, design ref)
CHECKS = {
 "C01": ("bounded-exhaustive description-space exploration (E1) of the real pipeline; rustc layout as oracle on host and i686-pc-windows-msvc",
         "Every description of the bounded layout space (k fields over the type/address alphabet x size/align/packed/vftable attributes, with nested/extern/enum/self-pointer field types) is pushed through the real parser, resolver and backend at pointer widths 4 and 8; every accepted case is compiled by rustc for a target of that width with offset_of! const-asserts derived from the description. Exhaustive within the bound, no sampling.",
         "rustc's layout on x86_64-unknown-linux-gnu / i686-pc-windows-msvc is ground truth; expected offsets from the harness's sequential-fold model whose built-in table is asserted against rustc each run; cases that fail to type-check for other reasons are C13's.", "DESIGN.md §6 C01"),
 "C02": ("bounded-exhaustive description-space exploration (E1); size_of/align_of const-asserts evaluated by rustc on both widths",
         "Same space as C01; for every emitted struct/enum/vftable struct of every accepted case the size and alignment pyxis resolved (read from ResolvedSemanticState) are asserted equal to size_of/align_of under rustc for the matching target, plus declared #[size]/#[align]/#[packed] and array stride.",
         "rustc layout is ground truth; resolved numbers are read through the public TypeRegistry API.", "DESIGN.md §6 C02"),
 "C03": ("bounded-exhaustive description-space exploration (E1) against a reference realisability model, both directions",
         "Every single-type description of the bounded space is run through the real pipeline at widths 4 and 8 and the Ok/Err verdict is compared with the reference model's realisability predicate on every element (spurious acceptances and spurious rejections both show); resolved size/alignment of accepted cases are compared with the model.",
         "The model encodes the statement's predicate; its alignment-defaulting rule is cross-checked against the resolved item on every accepted case.", "DESIGN.md §6 C03"),
 "C08": ("bounded-exhaustive enumeration of enum descriptions (E1); reference discriminant model, rustc const asserts on both widths, syn inspection of the default marker",
         "Every enum over the ten integer bases with all value vectors up to length 3 over a boundary alphabet, all default-marker subsets x defaultable, and long families up to 32 variants ending exactly at / one past the base's maximum is pushed through the real pipeline; rejections demanded by the statement are checked, accepted cases are compared with the model's values (registry), compiled by rustc with `E::V as base == value`, size and alignment asserts, and the #[default] variant is located with syn.",
         "rustc semantics of #[derive(Default)]/#[default]; values beyond isize are unspellable in the language.", "DESIGN.md §6 C08"),
 "C09": ("explicit-state exploration of resolution schedules (E2) on the real resolver through the cfg(pyxis_verif) hook: BFS over per-pass worklist permutations with registry-state de-duplication, times all module-addition orders",
         "For every input set of an order-sensitive corpus (late-generated vftable items referenced from fields, signatures, extern values and imports; derived types; all small dependency graphs) every module-addition order and every resolution schedule (all permutations of the worklist at every pass, <= 6 user types) is executed on the real SemanticState::build; all executions of one input set must agree on Ok/Err and on the bytes of every output file. Also: 4-type inheritance shapes and modules whose items differ only in the case of their names, built 12 / 24 times in one process.",
         "The hook permutes the worklist at pass boundaries only; a divergence while replaying a schedule prefix is a machinery error. Hash-seed variation beyond the worklist order is covered by repeated in-process builds (reported separately).", "DESIGN.md §6 C09"),
 "C10": ("bounded-exhaustive enumeration of dependency graphs (E1) against a fixpoint model of resolvability, plus schedule exploration (E2) of the small graphs",
         "Every dependency graph over up to 3 types (4 thorough) x edge kinds (by value, array, base, pointer, built-in, undefined name) x module assignments, chains to length 12 in three declaration orders, by-value cycles to length 6, pointer cycles, and undefined names in non-field positions is run through the real pipeline; Ok iff the model says resolvable, every declared field present with the declared type (syn), the error's type list equals the model's set, and the verdict is the same under every resolution schedule. Also: zero-length array edges (named and unnamed), by-name imports, the generated vftable name in every position and relation to its owner, a module whose path equals a type path of its parent.",
         "Types with more than one field are packed so layout rules do not mask resolution verdicts.", "DESIGN.md §6 C10"),
 "C11": ("bounded-exhaustive enumeration of module sets x ordered import lists (E1) against a precedence model; syn inspection of emitted paths",
         "Every combination of three provider modules (a, b, n::c) defining or not a type of the observed name with sizes 4/8/16, an observer with or without its own definition, and every ordered use list up to length 3 over module and by-name imports, for a fresh name and for a user type named like a built-in, is run through the real pipeline; the emitted field, parameter and return type paths must be the fully qualified path of the definition the statement's precedence selects, and the referring type's resolved size must be that definition's. Also: each case next to a type `Big<name>` whose name merely ends in the observed one, and the name `void`.",
         "Resolved size == compiled size is C02's claim.", "DESIGN.md §6 C11"),
 "C14": ("bounded-exhaustive enumeration of input directories (E1) through pyxis::build; directory listing and syn item inspection",
         "Every non-empty subset of the module paths {a, n/c, n/d/e, n}; one module at a time ranges over every subset of item kinds and every sequence of up to 2 backend blocks (rust prologue/epilogue/both, cpp); plus a collision menu that must be rejected. pyxis::build runs on real directories; the output listing must be exactly one .rs per module, each file's struct/enum/accessor multiset must equal the declared one plus generated vftable structs, prologue items first and epilogue items last in source order, no foreign backend text. Also: crowded modules (up to 12 further items of every kind with names that are prefixes of each other or differ in case, a digit or an underscore).",
         "File-system enumeration order is whatever glob yields in this sandbox.", "DESIGN.md §6 C14"),
 "C16": ("bounded-exhaustive enumeration of calling-convention declarations (E1); ABI strings read with syn from the unmodified output, acceptance by rustc on i686-pc-windows-msvc",
         "Every choice of convention (absent, the seven names, an invalid name) for a virtual function and independently for an address-bound impl function, every receiver form, inheritance depth 1..3 with the slot re-declared at each level, with and without placeholder slots: the ABI string of every vftable slot at every level, of placeholder slots, and of the wrapper's function-pointer type must be the declared name or the receiver-based default; invalid names must be rejected; every accepted output is compiled unmodified for i686-pc-windows-msvc. Thorough: the functions added by derived levels carry an independent convention from the same nine and the impl function sits on the most derived type (55 k cases).",
         "syn's reading of `extern \"..\"` strings; rustc nightly's ABI table for the i686 msvc target.", "DESIGN.md §6 C16"),
 "C17": ("bounded-exhaustive enumeration of visibility x marker x doc-comment assignments (E1); syn inspection of every emitted item",
         "Every pub/private assignment over seven item positions x every subset of the four markers on a plain type (and marker subsets on a vftable type and an enum), and every assignment of {none, one line, multi-line with empty lines} docs to seven positions, with a derived type inheriting documented members: visibility of every emitted type/field/method/accessor/slot, privacy of generated fields and placeholder slots, exact derive sets, packed-without-align repr, and #[doc] attributes line for line on the counterparts and on no other item.",
         "Enum variants are not among the counterparts the statement lists; their docs are only required not to land elsewhere.", "DESIGN.md §6 C17"),
 "C18": ("bounded-exhaustive enumeration of abstract modules x concrete-syntax styles (E1) and exhaustive token-sequence exploration of the parser (E3)",
         "Abstract modules are built with pyxis's own grammar constructors (all types to nesting depth 4/5 in five positions, all attribute lists up to length 2 over a 13-attribute alphabet in eleven positions, all signatures with up to 3 arguments, all item sequences up to length 3, boundary integers in every integer position), printed by an independent printer in a covering set of styles (comments between all tokens, trailing commas, doc spellings, attribute grouping, integer spellings, backend forms, item interleaving) and must parse back to exactly the same value. Negative side: every token sequence over a 41-token alphabet to length 3, then breadth-first over the sequences the parser has not yet rejected to length 5 (7 thorough): the parser's accept/reject must equal that of an independent reference recogniser of the grammar, accepted text must re-print and re-parse to the same module, rejected text must report a position inside the text, nothing may panic.",
         "The printer is the harness's; `_` as an argument name is outside the de-facto language (the parser's lookahead does not admit it) and is not generated. Accept/reject of every explored token sequence is compared with a reference recogniser written from the grammar (token alphabet only; not arbitrary bytes).", "DESIGN.md §6 C18"),
 "C19": ("bounded-exhaustive enumeration of metamorphic pairs (E1): input set vs. the same set plus unrelated modules; byte comparison of the observed module's file",
         "Six base input sets around an observed module x 14 unrelated module bodies built to collide by name with the observed module's types, generated vftable struct, enum and extern value, to import it and to derive from it, x five module paths (including child paths of the observed and of an imported module) x added before/after, singly and in pairs, plus unreferenced types added to imported modules: the observed module's output file must be byte-identical whenever the changed set is accepted. Also: a base set with a by-name import followed by a module import, and unrelated modules at the paths of imported types.",
         "Pairs whose changed set is rejected are outside the statement (counted in evidence).", "DESIGN.md §6 C19"),
 "C20": ("bounded-exhaustive enumeration of descriptions x rewrite-site subsets (E1); byte comparison of outputs",
         "For every accepted description of the layout space all compatible combinations (up to 8 sites) of: explicit address equal to the current offset, unnamed gap <-> address / #[size], #[size] equal to the natural size; for vftables every subset of functions given its current #[index] (with gaps and declared sizes); for enums every subset of implicit variants given its implicit value; every definition order of a multi-type module; each also re-spelled in hex and with digit separators. The rewritten description must be accepted and produce byte-identical files. Also: the index written before and after a convention, descending explicit enum values, six (seven) similar-named definitions in every order.",
         "Rewrite sites and current offsets come from the reference layout model.", "DESIGN.md §6 C20"),
 "C12": ("bounded-exhaustive robustness menus (E1) and token-sequence exploration continued into build (E3), each case evaluated in a resource-limited worker subprocess",
         "Every numeric position x a boundary-integer alphabet (singly and all pairs per template), every identifier position x an identifier alphabet (raw, generic, non-ASCII, keywords), every known attribute name x 10 shapes x 12 positions, structural oddities, the dependency graphs of C10, public-API call sequences (up to 3 add_module calls x 4 path kinds, then build), and every token sequence the parser accepts, all at widths 4 and 8 through parse, add_module, build and emit under catch_unwind inside worker processes with a 4 GiB address-space limit and a no-progress watchdog; every rejected token text up to length 3 through add_file must report path:line:column inside the file. Outcome Ok/Err is fine; panic, abort, stall or memory kill is a violation attributed to the case and confirmed by a solitary re-run. Also: types nested 8..128 levels, inputs with thousands of members, chains of 300 types, rust backend text whose offending token spans lines, parse errors behind multi-byte characters.",
         "Resource use is judged by fixed generous caps, not asymptotically; table-sized numeric positions are capped (4096 quick / 65536 thorough).", "DESIGN.md §6 C12"),
 "C05": ("bounded-exhaustive enumeration of impl blocks (E1); emitted wrappers executed on the host against recording stubs mapped at the declared absolute addresses (X), signatures read with syn (S)",
         "Every receiver form x every argument-type vector of length 0..3 over five integer/pointer types (rotations at lengths 4..6) x five return types, addresses from an executable alphabet in three spellings: the real emitted wrapper is compiled (conventions normalised to C) and run; a 23-byte stub mmap'ed at the declared address records the call: exactly one call, at that address, receiver = object address, arguments in order (masked to width), return value propagated. Wrapper signature and address literal are checked with syn at both widths; the rejection menu (no address, unresolvable parameter/return type, index on an impl function) must be Err.",
         "SysV x86-64 register assignment for extern \"C\"; execution on the 64-bit host only.", "DESIGN.md §6 C05"),
 "C04": ("bounded-exhaustive enumeration of vftable descriptions (E1) against a slot-assignment model; table layout asserted by rustc on both widths; dispatch executed on the host against two fake tables of recording stubs (X)",
         "Every assignment of {no index, index 0..6} to up to 3 functions (4 in thorough) x four declared table sizes: contradictions must be rejected, accepted tables are compiled with offset_of!/size_of asserts at widths 4 and 8 and their placeholder slots counted with syn. Execution: index patterns x receivers x arguments x return types, on the owning type, a derived type inheriting the table and a derived type extending it; two objects carry two different fake tables whose entries are recording stubs; every emitted wrapper is run: one call, into the declared slot of that object's table, receiver = object, arguments in order, result returned. Also: slots 9..100 and tables of 128 entries, and the index next to a doc line and an explicit convention in four attribute arrangements; placeholders are recognised as the fields no function declares, whatever they are called.",
         "First base carrying the vftable pointer at offset 0; SysV extern \"C\" for stubs; execution on the 64-bit host.", "DESIGN.md §6 C04"),
 "C06": ("bounded-exhaustive enumeration of inheritance shapes and of single-slot mutations of a compatible vftable prefix (E1); rustc layout asserts on both widths, syn inspection, vftable() executed on the host (X)",
         "All 2 650 shapes over up to 4 types (ordered lists of up to 3 earlier types as bases, own vftable block or not) and a three-function base table whose derived block is the compatible prefix, an extension, or one of every single-slot mutation (name, receiver mutability, parameter type, return type, convention, dropped slot, swapped slots) in three inheritance forms: every mutation must be rejected; for accepted shapes rustc asserts base offsets, sizes and the own vftable pointer at offset 0 followed by the first declared field, syn checks presence/absence of the vftable field and the accessor's table type, and the accessor is executed: it returns the pointer planted at the start of the object. Also: a base table with a placeholder gap whose derived block keeps, closes, moves, widens or fills the gap; a module whose accessor cannot be compiled is a violation.",
         "Only `accepted => compatible` is claimed (compatible-but-rejected is counted). The reference model lays out pointer, bases, own field sequentially.", "DESIGN.md §6 C06"),
 "C07": ("bounded-exhaustive enumeration of hierarchies with impl functions (E1) against a model of the exposure relation; every emitted method and conversion executed on the host against recording stubs (X)",
         "Every shape over up to 3 types x five impl-function assignments per type over clashing names (public/private, three receiver forms, public/private virtual functions), and the 4-type shapes with diamonds: for every (base field, public function of the base's type incl. inherited, public virtual function of a non-first base) the derived type must have a public method under the original name or the field-prefixed name whose execution reaches the original's address or vftable slot exactly once with the receiver at the base sub-object's offset; AsRef/AsMut to each base type occurring once must return that sub-object's address and must be absent for types occurring more than once. Also: the second base field of every type is a raw identifier, a rejected hierarchy is a violation, and four two-module hierarchies in which two base types share their short name are executed.",
         "Functions take only a receiver here (argument passing is C04/C05). When `<field>_<name>` is itself taken the statement names no alternative and further field prefixes are accepted.", "DESIGN.md §6 C07"),
 "C13": ("bounded-exhaustive description spaces (E1) whose every accepted output is type-checked in full by rustc for x86_64 and for i686-pc-windows-msvc",
         "The accepted cases of the layout space, a dedicated marker space (every subset of copyable/cloneable/defaultable/packed x eleven field kinds x same/cross module), and the carry-over, convention, scoping, enum, hierarchy and module-set spaces are assembled into crates (modules mirroring the input tree, extern types supplied) and type-checked including bodies: on the host with calling conventions normalised to C and, unmodified, for i686-pc-windows-msvc. Zero errors required; deny-by-default lints count. Also: nested-array field kinds, module doc x prologue x epilogue (must be accepted), declared names that look like generated ones.",
         "Quick tier strides through the larger source spaces. Three defect classes are listed as known findings (packed type embedding a struct, duplicate enum values, user type named like a built-in).", "DESIGN.md §6 C13"),
 "C15": ("bounded-exhaustive enumeration of singleton / extern-value declarations (E1); accessors executed on the host with data pages mapped at the declared absolute addresses (X), literals read with syn (S)",
         "#[singleton(A)] on a struct and on an enum and `extern v: T` with #[address(A)] for seven types, A over five mappable and four unmappable addresses in three spellings, public and private: struct get() is None for null and otherwise exactly the planted object (one indirection), enum get() returns the stored value, get_v() refers to address A; accessor type, visibility, address literal and indirection level are checked in the text at both widths; an extern value without address must be rejected. Thorough: every ordered pair of accessor declarations in one module (10 x 10 kinds, four address relations incl. equal and adjacent, three visibility combinations, both declaration orders), both accessors judged in the text and executed in one process.",
         "Linux mmap(MAP_FIXED_NOREPLACE) semantics; execution on the 64-bit host.", "DESIGN.md §6 C15"),
}

NOT_YET = {
}

def main():
    props = [json.loads(l) for l in open("properties.jsonl")]
    checks = []
    na = []
    for p in props:
        pid = p["id"]
        if pid in CHECKS:
            tech, text, note, ref = CHECKS[pid]
            checks.append({
                "property_id": pid,
                "quick_cmd": f"./check {pid} quick",
                "thorough_cmd": f"./check {pid} thorough",
                "evidence_file": f"evidence/{pid}.json",
                "replay_cmd_template": f"./check {pid} --replay {{path}}",
                "engine": "pyxis-mc",
                "level_claimed": {"category": "model_checking", "text": text, "design_ref": ref},
                "level_note": note,
                "technique": tech,
            })
        else:
            na.append({"property_id": pid, "reason": NOT_YET.get(pid, "check not built yet in this round (planned in DESIGN.md §6); not claimed until it exists and passes on the unchanged tree")})
    m = {
        "version": 1,
        "setup_cmd": "./setup.sh",
        "hooks": {
            "guard": "pyxis_verif",
            "enable": "RUSTFLAGS=\"--cfg pyxis_verif\" (set in /verif/mc/.cargo/config.toml; the engine crate path-depends on /repo and is rebuilt by ./check)",
            "baseline_off_cmd": "cd /repo && cargo test --workspace --no-fail-fast --offline",
            "source_commits": HOOK_COMMITS,
            "add_only": True,
        },
        "engines": [{
            "name": "pyxis-mc",
            "path": "mc",
            "serves_properties": sorted(CHECKS),
            "kind_free_text": "Rust binary linking the real pyxis crate (hooks on): bounded-exhaustive explorers (description spaces, resolution schedules, token sequences) with rustc / execution / syn oracles",
        }],
        "checks": checks,
        "not_applicable": na,
        "notes": "Exit codes: 0 held (possibly with KNOWN-FINDING lines), 1 violation, 2 machinery failure. See DESIGN.md.",
    }
    json.dump(m, open("MANIFEST.json", "w"), indent=1)
    print("claimed:", sorted(CHECKS), "not_applicable:", [x["property_id"] for x in na])

main()
