#!/usr/bin/env python3
"""Regenerates /verif/MANIFEST.json from the table below. Run from /verif."""
import json, subprocess

HOOK_COMMITS = ["ac08067"]

# id -> (technique, level text, level note, design ref)
CHECKS = {
 "C01": ("bounded-exhaustive description-space exploration (E1) of the real pipeline; rustc layout as oracle on host and i686-pc-windows-msvc",
         "Every description of the bounded layout space (k fields over the type/address alphabet x size/align/packed/vftable attributes, with nested/extern/enum/self-pointer field types) is pushed through the real parser, resolver and backend at pointer widths 4 and 8; every accepted case is compiled by rustc for a target of that width with offset_of! const-asserts derived from the description. Exhaustive within the bound, no sampling.",
         "rustc's layout on x86_64-unknown-linux-gnu / i686-pc-windows-msvc is ground truth; expected offsets from the harness's sequential-fold model whose built-in table is asserted against rustc each run; cases that fail to type-check for other reasons are C13's.", "DESIGN.md §6 C01"),
 "C02": ("bounded-exhaustive description-space exploration (E1); size_of/align_of const-asserts evaluated by rustc on both widths",
         "Same space as C01; for every emitted struct/enum/vftable struct of every accepted case the size and alignment pyxis resolved (read from ResolvedSemanticState) are asserted equal to size_of/align_of under rustc for the matching target, plus declared #[size]/#[align]/#[packed] and array stride.",
         "rustc layout is ground truth; resolved numbers are read through the public TypeRegistry API.", "DESIGN.md §6 C02"),
 "C03": ("bounded-exhaustive description-space exploration (E1) against a reference realisability model, both directions",
         "Every single-type description of the bounded space is run through the real pipeline at widths 4 and 8 and the Ok/Err verdict is compared with the reference model's realisability predicate on every element (spurious acceptances and spurious rejections both show); resolved size/alignment of accepted cases are compared with the model.",
         "The model encodes the statement's predicate; its alignment-defaulting rule is cross-checked against the resolved item on every accepted case.", "DESIGN.md §6 C03"),
}

NOT_YET = {
}

def main():
    props = [json.loads(l) for l in open("properties.jsonl")]
    checks = []
    na = []
    for p in props:
        pid = p["id"]
        if pid in CHECKS:
            tech, text, note, ref = CHECKS[pid]
            checks.append({
                "property_id": pid,
                "quick_cmd": f"./check {pid} quick",
                "thorough_cmd": f"./check {pid} thorough",
                "evidence_file": f"evidence/{pid}.json",
                "replay_cmd_template": f"./check {pid} --replay {{path}}",
                "engine": "pyxis-mc",
                "level_claimed": {"category": "model_checking", "text": text, "design_ref": ref},
                "level_note": note,
                "technique": tech,
            })
        else:
            na.append({"property_id": pid, "reason": NOT_YET.get(pid, "check not built yet in this round (planned in DESIGN.md §6); not claimed until it exists and passes on the unchanged tree")})
    m = {
        "version": 1,
        "setup_cmd": "./setup.sh",
        "hooks": {
            "guard": "pyxis_verif",
            "enable": "RUSTFLAGS=\"--cfg pyxis_verif\" (set in /verif/mc/.cargo/config.toml; the engine crate path-depends on /repo and is rebuilt by ./check)",
            "baseline_off_cmd": "cd /repo && cargo test --workspace --no-fail-fast --offline",
            "source_commits": HOOK_COMMITS,
            "add_only": True,
        },
        "engines": [{
            "name": "pyxis-mc",
            "path": "mc",
            "serves_properties": sorted(CHECKS),
            "kind_free_text": "Rust binary linking the real pyxis crate (hooks on): bounded-exhaustive explorers (description spaces, resolution schedules, token sequences) with rustc / execution / syn oracles",
        }],
        "checks": checks,
        "not_applicable": na,
        "notes": "Exit codes: 0 held (possibly with KNOWN-FINDING lines), 1 violation, 2 machinery failure. See DESIGN.md.",
    }
    json.dump(m, open("MANIFEST.json", "w"), indent=1)
    print("claimed:", sorted(CHECKS), "not_applicable:", [x["property_id"] for x in na])

main()
