#!/bin/bash
# usage: tools/seedtest.sh <patch.diff> <check> [<check> ...]
# Applies a seeded change to /repo, runs the repository's tests and the given checks (quick tier)
# with evidence redirected to a scratch directory, then restores /repo.
set -u
PATCH="$1"; shift
OUT=/tmp/seedout.$$; mkdir -p "$OUT"
if ! git -C /repo diff --quiet; then echo "/repo is not clean"; exit 2; fi
git -C /repo apply "$PATCH" || { echo "patch does not apply"; exit 2; }
echo "== baseline tests with the change =="
(cd /repo && cargo test --workspace --no-fail-fast --offline 2>&1 | grep -E "^test result" | head -1)
(cd /repo && PYXIS_TEST_POINTER_SIZE=4 cargo test --offline 2>&1 | grep -E "^test result" | head -1)
for c in "$@"; do
  echo "== $c =="
  VERIF_OUT="$OUT" /verif/check "$c" quick > "$OUT/$c.log" 2>&1; rc=$?
  echo "exit=$rc"; grep -E "^VIOLATION|^  class=|MACHINERY" "$OUT/$c.log" | cut -c1-260 | head -6
done
git -C /repo checkout -- .
git -C /repo status --short | head -3
rm -rf "$OUT"
