#!/bin/bash
# usage: tools/seed_driver.sh <lane> <nlanes> <checks: own|all>   processes ${SEED_DIR:-/tmp/seed}/jobs.txt (lines "Cxx n")
lane="$1"; nl="$2"; mode="$3"; i=0
ALL="C01 C02 C03 C04 C05 C06 C07 C08 C09 C10 C11 C12 C13 C14 C15 C16 C17 C18 C19 C20"
while read -r id n; do
  i=$((i+1)); [ $(( i % nl )) -ne $(( lane % nl )) ] && continue
  out=${SEED_DIR:-/tmp/seed}/results/$id-$n.txt
  [ -s "$out" ] && grep -q "^DONE" "$out" && continue
  # claimed by another lane (a stale claim has to be removed by hand)
  if [ "${CLAIM:-0}" = 1 ]; then ( set -o noclobber; : > "$out.claim" ) 2>/dev/null || continue; fi
  { echo "=== $id patch$n"; SEED_DIR=${SEED_DIR:-/tmp/seed} /verif/tools/confirm_seed.sh "$id" "$n" 2>&1 | tail -8
    if [ "$mode" = all ]; then cs="$id $(echo $ALL | sed "s/$id//")";
    elif [ "$mode" = group ]; then
      case "$id" in
        C01|C02|C03|C20) g="C01 C02 C03 C13 C20";;
        C04|C06|C07|C16) g="C04 C06 C07 C16 C13";;
        C09|C10|C11|C14|C19) g="C09 C10 C11 C14 C19";;
        C18|C12) g="C18 C12 C10";;
        C13) g="C13 C07 C17";;
        *) g="C05 C08 C15 C17 C13";;
      esac
      cs="$id $(echo $g | sed "s/$id//")"
    else cs="$id"; fi
    /verif/tools/lanes.sh run "$lane" "${SEED_DIR:-/tmp/seed}/$id-out/patch$n.diff" "$id-$n" $cs 2>&1
    echo "DONE"; } > "$out" 2>&1
done < ${SEED_DIR:-/tmp/seed}/jobs.txt
