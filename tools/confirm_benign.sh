#!/bin/bash
# usage: tools/confirm_benign.sh <Bxx> <n>
# Confirms a benign change in the scratch worktree /tmp/seed6/<Bxx>: with the patch the repository's tests
# pass and the demonstration (which asserts the new observable behaviour) passes; without it the demonstration fails.
ID="$1"; N="$2"; S=${SEED_DIR:-/tmp/seed6}; W=$S/$ID; O=$S/$ID-out
cd "$W" || exit 2
git checkout -q -- . ; rm -rf tests/demo$N.rs
place=$(head -1 "$O/demo$N.rs" | grep -oE "tests/[A-Za-z0-9_]+\.rs" | head -1)
[ -z "$place" ] && place="tests/demo$N.rs"
mkdir -p tests; cp "$O/demo$N.rs" "$place"
name=$(basename "$place" .rs)
run_demo() { cargo test --offline --test "$name" > /tmp/confirmb.$$.log 2>&1; grep -E "^test result" /tmp/confirmb.$$.log | tail -1; grep -E "^error(\[|:)" /tmp/confirmb.$$.log | head -2; rm -f /tmp/confirmb.$$.log; }
echo "-- without patch: demo"; run_demo
git apply "$O/patch$N.diff" || { echo "PATCH DOES NOT APPLY"; exit 2; }
echo "-- with patch: suite"; cargo test --offline --lib 2>&1 | grep -E "^test result" | head -1; PYXIS_TEST_POINTER_SIZE=4 cargo test --offline --lib 2>&1 | grep -E "^test result" | head -1
echo "-- with patch: demo"; run_demo
git checkout -q -- . ; rm -f "$place"; rmdir tests 2>/dev/null
git status --short | head -3
