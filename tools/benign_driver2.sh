#!/bin/bash
# usage: tools/benign_driver2.sh <lane>   processes /tmp/seed6/jobs2.txt (lines "Bxx n C.. C.. ..."): confirmation,
# then the listed checks' quick tiers against the patched tree in lane <lane>
lane="$1"
mkdir -p /tmp/seed6/results
while read -r id n checks; do
  out=/tmp/seed6/results/$id-$n.txt
  [ -s "$out" ] && grep -q "^DONE" "$out" && continue
  ( set -o noclobber; : > "$out.claim" ) 2>/dev/null || continue
  { echo "=== $id patch$n"; /verif/tools/confirm_benign.sh "$id" "$n" 2>&1 | tail -8
    /verif/tools/lanes.sh run "$lane" "/tmp/seed6/$id-out/patch$n.diff" "$id-$n" $checks 2>&1
    echo "DONE"; } > "$out" 2>&1
done < /tmp/seed6/jobs2.txt
