#!/bin/bash
# usage: tools/confirm_seed.sh <Cxx> <n>
# Confirms a seeded change in the scratch worktree /tmp/seed/<Cxx>: with the patch the repository's
# tests pass and the demonstration fails; without it the demonstration passes.
ID="$1"; N="$2"; S=${SEED_DIR:-/tmp/seed}; W=$S/$ID; O=$S/$ID-out
cd "$W" || exit 2
git checkout -q -- . ; rm -rf tests/demo$N.rs examples/demo$N.rs
place=$(head -1 "$O/demo$N.rs" | grep -oE "(tests|examples)/[A-Za-z0-9_]+\.rs" | head -1)
[ -z "$place" ] && place="tests/demo$N.rs"
mkdir -p "$(dirname "$place")"; cp "$O/demo$N.rs" "$place"
name=$(basename "$place" .rs)
run_demo() { if [[ "$place" == tests/* ]]; then cargo test --offline --test "$name" > /tmp/confirm.$$.log 2>&1; grep -E "^test result" /tmp/confirm.$$.log | tail -1; grep -E "error(\[|:)" /tmp/confirm.$$.log | head -2; rm -f /tmp/confirm.$$.log; else cargo run --offline --example "$name" >/dev/null 2>&1; echo "example exit=$?"; fi; }
echo "-- without patch: demo"; run_demo
git apply "$O/patch$N.diff" || { echo "PATCH DOES NOT APPLY"; exit 2; }
echo "-- with patch: suite"; cargo test --offline --lib 2>&1 | grep -E "^test result" | head -1; PYXIS_TEST_POINTER_SIZE=4 cargo test --offline --lib 2>&1 | grep -E "^test result" | head -1
echo "-- with patch: demo"; run_demo
git checkout -q -- . ; rm -f "$place"; rmdir tests examples 2>/dev/null
git status --short | head -3
