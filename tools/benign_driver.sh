#!/bin/bash
# usage: tools/benign_driver.sh <lane>   processes /tmp/seed6/jobs.txt (lines "Bxx n"): confirmation, then every
# check's quick tier against the patched tree in lane <lane>; any exit other than 0 is an alarm to look at
lane="$1"
ALL="C01 C02 C03 C04 C05 C06 C07 C08 C09 C10 C11 C12 C13 C14 C15 C16 C17 C18 C19 C20"
mkdir -p /tmp/seed6/results
while read -r id n; do
  out=/tmp/seed6/results/$id-$n.txt
  [ -s "$out" ] && grep -q "^DONE" "$out" && continue
  ( set -o noclobber; : > "$out.claim" ) 2>/dev/null || continue
  { echo "=== $id patch$n"; /verif/tools/confirm_benign.sh "$id" "$n" 2>&1 | tail -8
    /verif/tools/lanes.sh run "$lane" "/tmp/seed6/$id-out/patch$n.diff" "$id-$n" $ALL 2>&1
    echo "DONE"; } > "$out" 2>&1
done < /tmp/seed6/jobs.txt
